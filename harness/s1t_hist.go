package main

// Recorded history of one SECS-I endpoint (real secs1 connection built through secs1.VerifNewTraced, its socket wrapped by
// s1tConn) and the observation-guided linearizer that turns it into an action list for the Lean model of the SECS-I transport's
// generation / hand-off layer (lean/GoSecs/Model/Secs1Transport.lean, driver command `s1t.replay`).
//
// As for HSMS (router_hist.go) the linearizer is NOT trusted: it only proposes an interleaving.  The Lean driver decides whether
// every proposed action is enabled in the model and reports the model's outcomes / wire / deliveries / counters, which are then
// compared with what was observed on the implementation (violation kind `correspondence`).
//
// What is recorded, in one total order (stamps from rStamp):
//   by the hook (secs1/verif_hooks_transport.go): ArmStart, Start begin/end, TCPUp, CommitSelected, Stop begin/end, every
//     transport.Write call with the frame's system bytes / body prefix / block count and its result, every block handed to the
//     generation's inbound sink with what assembler.accept did with it, every frame delivered to the core (begin / end);
//   by the socket wrapper: every ENQ and every block the library wrote, per generation socket; the library's Close of the socket;
//   by the harness: start and end of every send call with its outcome, the moment the harness closes the peer's end.
//
// Recorded stamps bracket the real linearisation points (a `begin` record precedes the operation, an `end` record follows it), so
// lifecycle steps are placed LAZILY: the cancel / seal / broadcast of a generation is emitted when an observation needs it (a call
// that returned connection-closed, the engine's context error, the end of Stop, the next ArmStart), never merely because a record
// with a smaller stamp exists.

import (
	"encoding/binary"
	"fmt"
	"net"
	"os"
	"sort"
	"strings"
	"sync"
	"sync/atomic"

	"github.com/arloliu/go-secs/v2/secs1"
)

type s1tConnEv struct {
	Stamp int64  `json:"st"`
	Gen   int    `json:"g"`
	Kind  string `json:"k"` // enq | block | close
	SB    uint32 `json:"sb,omitempty"`
	SF    uint16 `json:"sf,omitempty"` // stream << 8 | function of the block's message
	BlkNo int    `json:"bn,omitempty"`
	EBit  bool   `json:"e,omitempty"`
	BSend uint64 `json:"bs"` // BlockSendCount sampled on the engine's goroutine right after this write
}

type s1tCall struct {
	Idx     int    `json:"idx"`
	Kind    string `json:"kind"` // s (W-bit, reply expected) | f (no reply correlation) | a (SendAsync)
	Tag     int64  `json:"tag"`
	StartSt int64  `json:"start"`
	EndSt   int64  `json:"end"`
	Outcome string `json:"outcome"` // reply timeout closed ctx notopen notselected writeerr sent ("" = never returned)
}

type s1tRec struct {
	Name      string
	tr        *secs1.VerifTrace
	mu        sync.Mutex
	conn      []s1tConnEv
	peerClose map[int]int64 // generation -> stamp at which the harness closed the peer's end
	blockSend func() uint64 // the connection's BlockSendCount (set once the connection exists)
}

func (r *s1tRec) bsend() uint64 {
	if r.blockSend == nil {
		return 0
	}
	return r.blockSend()
}

func newS1tRec(name string) *s1tRec {
	return &s1tRec{Name: name, tr: &secs1.VerifTrace{Stamp: rStamp}, peerClose: map[int]int64{}}
}

func (r *s1tRec) notePeerClose(gen int) {
	r.mu.Lock()
	if _, ok := r.peerClose[gen]; !ok {
		r.peerClose[gen] = rStamp()
	}
	r.mu.Unlock()
}

// s1tConn wraps the library's end of a generation socket.
type s1tConn struct {
	net.Conn
	rec    *s1tRec
	gen    int
	closed atomic.Bool
}

func (r *s1tRec) wrap(c net.Conn) net.Conn {
	return &s1tConn{Conn: c, rec: r, gen: r.tr.CurGen()}
}

// s1tLazyConn is handed out by a pipe listener before the generation it will belong to is known: the first Write / Close decides.
type s1tLazyConn struct {
	net.Conn
	rec  *s1tRec
	once sync.Once
	w    *s1tConn
}

func (c *s1tLazyConn) wrapped() *s1tConn {
	c.once.Do(func() { c.w = &s1tConn{Conn: c.Conn, rec: c.rec, gen: max(c.rec.tr.CurGen(), 0)} })
	return c.w
}

func (c *s1tLazyConn) Write(b []byte) (int, error) { return c.wrapped().Write(b) }
func (c *s1tLazyConn) Close() error                { return c.wrapped().Close() }

func (c *s1tConn) Write(b []byte) (int, error) {
	n, err := c.Conn.Write(b)
	if err == nil && n == len(b) {
		switch {
		case len(b) == 1 && b[0] == 0x05:
			c.rec.mu.Lock()
			c.rec.conn = append(c.rec.conn, s1tConnEv{Stamp: rStamp(), Gen: c.gen, Kind: "enq", BSend: c.rec.bsend()})
			c.rec.mu.Unlock()
		case len(b) >= 13:
			c.rec.mu.Lock()
			c.rec.conn = append(c.rec.conn, s1tConnEv{Stamp: rStamp(), Gen: c.gen, Kind: "block", SB: binary.BigEndian.Uint32(b[7:11]), SF: uint16(b[3]&0x7f)<<8 | uint16(b[4]),
				BlkNo: int(b[5]&0x7f)<<8 | int(b[6]), EBit: b[5]&0x80 != 0, BSend: c.rec.bsend()})
			c.rec.mu.Unlock()
		}
	}
	return n, err
}

func (c *s1tConn) Close() error {
	if c.closed.CompareAndSwap(false, true) {
		c.rec.mu.Lock()
		c.rec.conn = append(c.rec.conn, s1tConnEv{Stamp: rStamp(), Gen: c.gen, Kind: "close", BSend: c.rec.bsend()})
		c.rec.mu.Unlock()
	}
	return c.Conn.Close()
}

// writeGens: (system bytes, stream/function) of every data frame handed to transport.Write -> the generations whose socket the
// core passed along with it (the epoch the send call pinned).
func (r *s1tRec) writeGens() map[[2]uint32]map[int]bool {
	out := map[[2]uint32]map[int]bool{}
	for _, e := range r.tr.Events() {
		if e.Kind != "write-begin" || e.Ctrl {
			continue
		}
		k := [2]uint32{e.SB, uint32(e.SF)}
		if out[k] == nil {
			out[k] = map[int]bool{}
		}
		out[k][e.Gen] = true
	}
	return out
}

// s1tTag extracts the harness's call tag from (a prefix of) a SECS-II body: a U4 item, or the first four bytes of a binary item.
func s1tTag(body []byte) int64 {
	if len(body) >= 6 && body[0] == 0xB1 && body[1] == 0x04 {
		return int64(binary.BigEndian.Uint32(body[2:6]))
	}
	if len(body) >= 2 && body[0]&0xFC == 0x20 {
		nl := int(body[0] & 3)
		if len(body) >= 1+nl+4 {
			return int64(binary.BigEndian.Uint32(body[1+nl : 1+nl+4]))
		}
	}
	return -1
}

// ---- linearizer

type s1tEv struct {
	stamp int64
	k     string
	gen   int
	call  int // call-start / call-end: index into calls; write-*: write id
	res   string
	sb    uint32
	nblk  int
	bn    int
	e     bool
	eff   string
	body  []byte
	ctrl  bool
	ak    bool
}

type s1tS struct {
	kind     string
	nblk     int
	pc       int // 0 new 1 begun 2 pinned 3 gated 4 queued 5 locked 6 checked 7 loaded 8 handed 9 returned 10 written 11 waiting 12 decided 13 done
	ep       int
	acked    int
	engRes   string // what the engine reported (req.done), "" = nothing yet
	wres     string // what writeFrame got
	call     *s1tCall
	writeRes string // result of this sender's Write call as recorded ("" = no Write call / never ended)
	implicit bool
}

type s1tG struct {
	ctxDone, connUp, sockOpen, stopped, genDone, joined bool
	lock                                                int
	eng                                                 int // 0 not started 1 idle 2 sending 3 handler 4 exited
	req                                                 int
	peerClosed                                          bool
}

type s1tLin struct {
	asyncErrBudget int // AsyncSendErrCount not yet explained by a recorded Write
	dropBudget     int // DataMsgDropNotSelectedCount not explained by a refused call
	toks           []string
	snd            []*s1tS
	gens           []*s1tG
	cur            int
	tgen           int
	selected       bool
	err            string
}

func (l *s1tLin) emit(format string, a ...any) { l.toks = append(l.toks, fmt.Sprintf(format, a...)) }

func (l *s1tLin) fail(format string, a ...any) {
	if l.err == "" {
		l.err = fmt.Sprintf(format, a...) + fmt.Sprintf(" (after %d tokens, last %v)", len(l.toks), l.toks[max(0, len(l.toks)-8):])
	}
}

func (l *s1tLin) g(i int) *s1tG {
	if i < 0 || i >= len(l.gens) {
		l.fail("generation %d does not exist", i)
		return &s1tG{lock: -1, req: -1}
	}
	return l.gens[i]
}

func (l *s1tLin) ensureSel0() {
	if l.selected {
		l.emit("sel:0")
		l.selected = false
	}
}

func (l *s1tLin) ensureCancel(gi int) {
	g := l.g(gi)
	if g.ctxDone {
		return
	}
	if l.cur == gi {
		l.ensureSel0()
	}
	// queued fire-and-forget messages the drain goroutine took after the state left Selected and before the cancel: refused by
	// the B2 gate (one DataMsgDropNotSelectedCount and one AsyncSendErrCount each, no Write call)
	if g.lock < 0 && !l.selected {
		for i, s := range l.snd {
			if l.dropBudget <= 0 || l.asyncErrBudget <= 0 {
				break
			}
			if s.kind == "a" && s.pc == 4 && s.ep == gi && s.writeRes == "" {
				l.advance(i, 6)
				if s.pc != 9 || s.wres != "notselected" {
					l.fail("stranded async sender %d is not refused by the gate of generation %d", i, gi)
					return
				}
				l.unlock(i)
				l.dropBudget--
				l.asyncErrBudget--
			}
		}
	}
	l.emit("cn:%d", gi)
	g.ctxDone, g.connUp, g.sockOpen = true, false, false
}

func s1tEngineResult(res string) bool {
	return res == "ok" || res == "sendfailed" || res == "ctx" || res == "ioerr"
}

// handParked: the Write parked at the hand-off of generation gi got the ENGINE's report (as its recorded result shows), so the
// engine did take it before the generation's bundle was cleared — even if the record of that Write's return comes later.
func (l *s1tLin) handParked(gi int) {
	g := l.g(gi)
	if g.lock < 0 || g.stopped {
		return
	}
	s := l.snd[g.lock]
	if (s.pc != 6 && s.pc != 7) || !s1tEngineResult(s.writeRes) {
		return
	}
	if g.eng == 3 {
		l.emit("rt:%d", gi)
		if g.req >= 0 {
			g.eng = 2
		} else {
			g.eng = 1
		}
	}
	l.advance(g.lock, 8)
}

func (l *s1tLin) ensureSockDead(gi int) {
	g := l.g(gi)
	if !g.sockOpen {
		return
	}
	if g.peerClosed {
		l.emit("pd:%d", gi)
		g.sockOpen = false
		return
	}
	l.ensureCancel(gi)
}

func (l *s1tLin) ensureGenDone(gi int) {
	g := l.g(gi)
	l.handParked(gi)
	if g.eng == 2 && g.req >= 0 && l.snd[g.req].writeRes == "ok" {
		l.engineFinish(gi, "ok") // completed before the teardown began
	}
	l.ensureCancel(gi)
	if !g.stopped {
		l.emit("ss:%d", gi)
		g.stopped = true
		l.tgen = -1
	}
	if !g.genDone {
		l.emit("sd:%d", gi)
		g.genDone, g.sockOpen = true, false
	}
}

// engineFinish: runSend of generation gi returns res (ok sf ab io).
func (l *s1tLin) engineFinish(gi int, res string) {
	g := l.g(gi)
	if g.eng != 2 || g.req < 0 {
		l.fail("engine of generation %d cannot finish (%s): it is not sending", gi, res)
		return
	}
	s := l.snd[g.req]
	switch res {
	case "ok":
		if s.acked != s.nblk {
			l.fail("sender %d: Write returned nil but %d of %d blocks were seen ACKed on the line", g.req, s.acked, s.nblk)
			return
		}
	case "ab":
		l.ensureCancel(gi)
	case "io":
		l.ensureSockDead(gi)
	}
	l.emit("fn:%d:%s", gi, res)
	s.engRes = res
	g.eng, g.req = 1, -1
}

// pickRes: what the engine reports for the request it still holds when the generation is joined.
func (l *s1tLin) pickRes(i int) string {
	switch l.snd[i].writeRes {
	case "ok":
		return "ok"
	case "sendfailed":
		return "sf"
	case "ioerr":
		return "io"
	}
	return "ab"
}

func (l *s1tLin) ensureJoined(gi int, abandoned bool) {
	g := l.g(gi)
	if g.joined {
		return
	}
	l.ensureGenDone(gi)
	if g.eng == 3 && !abandoned {
		l.emit("rt:%d", gi) // the handler's return was recorded after the record of Stop's return
		if g.req >= 0 {
			g.eng = 2
		} else {
			g.eng = 1
		}
	}
	if g.eng == 2 {
		if s := l.snd[g.req]; s.pc == 8 && s.writeRes == "closed" {
			// the sender left through the teardown broadcast (its Write is recorded as connection-closed) before the engine
			// reported: the record of its return merely comes later
			l.emit("bl:%d", g.req)
			s.wres, s.pc = "closed", 9
		}
		l.engineFinish(gi, l.pickRes(g.req))
	}
	if g.eng == 1 {
		l.emit("ex:%d", gi)
		g.eng = 4
	}
	if l.err != "" {
		return
	}
	l.flushStranded(gi)
	l.emit("jn:%d", gi)
	g.joined = true
}

// flushStranded: fire-and-forget messages still queued on a torn-down generation.  The drain goroutine's select between the
// queue and the cancelled context is random: each stranded message is either never looked at, or taken and refused by the
// pre-write check (one AsyncSendErrCount, no Write call).  How many were taken is read off the final counter.
func (l *s1tLin) flushStranded(gi int) {
	g := l.g(gi)
	if !g.ctxDone || g.lock >= 0 {
		return
	}
	for i, s := range l.snd {
		if l.asyncErrBudget <= 0 {
			return
		}
		if s.kind == "a" && s.pc == 4 && s.ep == gi && s.writeRes == "" {
			l.advance(i, 6)
			if s.pc != 9 {
				l.fail("stranded async sender %d passes the pre-write check of the torn-down generation %d", i, gi)
				return
			}
			l.unlock(i)
			l.asyncErrBudget--
		}
	}
}

func s1tModelRes(res string) string {
	switch res {
	case "ok":
		return "ok"
	case "sendfailed":
		return "sf"
	case "ctx":
		return "ab"
	case "ioerr":
		return "io"
	}
	return ""
}

// advance moves sender i forward to program counter `to` along the non-failing branches, as far as the shadow allows.
func (l *s1tLin) advance(i, to int) {
	s := l.snd[i]
	for s.pc < to && l.err == "" {
		switch s.pc {
		case 1:
			l.emit("p:%d", i)
			if l.cur < 0 {
				s.pc = 13
				return
			}
			s.ep, s.pc = l.cur, 2
		case 2:
			l.emit("g:%d", i)
			if !l.selected {
				s.pc = 13
				return
			}
			s.pc = 3
		case 3:
			if s.kind == "a" {
				l.emit("q:%d:r", i)
				s.pc = 4
				continue
			}
			fallthrough
		case 4:
			g := l.g(s.ep)
			if g.lock >= 0 {
				l.fail("sender %d needs the write lock of generation %d, held by sender %d in the linearization", i, s.ep, g.lock)
				return
			}
			l.emit("lk:%d", i)
			g.lock, s.pc = i, 5
		case 5:
			g := l.g(s.ep)
			l.emit("ck:%d", i)
			switch {
			case !g.connUp || g.ctxDone:
				s.wres, s.pc = "closed", 9
				return
			case !l.selected:
				s.wres, s.pc = "notselected", 9
				return
			}
			s.pc = 6
		case 6:
			l.emit("ld:%d", i)
			if l.tgen != s.ep {
				s.wres, s.pc = "closed", 9
				return
			}
			s.pc = 7
		case 7:
			g := l.g(s.ep)
			if g.eng != 1 {
				return // the engine is not at its hand-off select: the request stays parked
			}
			l.emit("tk:%d", i)
			g.eng, g.req, s.pc = 2, i, 8
		default:
			return
		}
	}
}

// unlock: writeFrame returns with s.wres.
func (l *s1tLin) unlock(i int) {
	s := l.snd[i]
	l.emit("ul:%d", i)
	l.g(s.ep).lock = -1
	if s.wres == "ok" && s.kind == "s" {
		s.pc = 10
		return
	}
	s.pc = 13
}

func s1tLinearize(calls []s1tCall, evs []secs1.VerifTraceEv, conn []s1tConnEv, peerClose map[int]int64, asyncErr, drop int) (l *s1tLin, senderOf map[int]int) {
	l = &s1tLin{cur: -1, tgen: -1, asyncErrBudget: asyncErr, dropBudget: drop}
	for _, c := range calls {
		if c.Outcome == "notselected" {
			l.dropBudget--
		}
	}
	byTag := map[int64]int{}
	for i := range calls {
		c := &calls[i]
		l.snd = append(l.snd, &s1tS{kind: c.Kind, nblk: 1, call: c})
		byTag[c.Tag] = i
	}
	// Write calls -> senders; system bytes -> sender; recorded results
	senderOf = map[int]int{}    // write id -> sender
	bySB := map[[2]uint32]int{} // (system bytes, stream/function) -> sender: a reply reuses the PEER's system bytes, which may equal one of ours
	for _, e := range evs {
		if e.Kind != "write-begin" || e.Ctrl {
			continue
		}
		i, ok := byTag[s1tTag(e.Body)]
		if !ok || s1tTag(e.Body) < 0 {
			// a send the library (or a handler) made without a harness call record: an implicit fire-and-forget sender
			i = len(l.snd)
			l.snd = append(l.snd, &s1tS{kind: "a", nblk: 1, implicit: true})
		}
		senderOf[e.ID] = i
		bySB[[2]uint32{e.SB, uint32(e.SF)}] = i
		l.snd[i].nblk = max(1, e.NBlk)
	}
	for _, e := range evs {
		if e.Kind == "write-end" && !e.Ctrl {
			if i, ok := senderOf[e.ID]; ok {
				l.snd[i].writeRes = e.Res
				if l.snd[i].kind == "a" && e.Res != "ok" {
					l.asyncErrBudget--
				}
			}
		}
	}
	// events
	var all []s1tEv
	for _, e := range evs {
		if (e.Kind == "write-begin" || e.Kind == "write-end") && e.Ctrl {
			continue
		}
		all = append(all, s1tEv{stamp: e.Stamp, k: e.Kind, gen: e.Gen, call: e.ID, res: e.Res, sb: e.SB, nblk: e.NBlk, bn: e.BlkNo, e: e.EBit, eff: e.Eff})
	}
	// ACKed or not: BlockSendCount is sampled on the engine's own goroutine after each of its writes and at the end of the Write
	// call; one request at a time is on the line, so a transmission was ACKed iff the next sample is larger
	type sample struct {
		stamp int64
		bs    uint64
	}
	writeEnd := map[int]sample{} // sender -> its write-end
	for _, e := range evs {
		if e.Kind == "write-end" && !e.Ctrl {
			if i, ok := senderOf[e.ID]; ok {
				writeEnd[i] = sample{e.Stamp, e.BSend}
			}
		}
	}
	var connEvs []s1tEv
	for k, e := range conn {
		ev := s1tEv{stamp: e.Stamp, k: e.Kind, gen: e.Gen, sb: e.SB, bn: e.BlkNo, e: e.EBit}
		if e.Kind == "block" {
			i, ok := bySB[[2]uint32{e.SB, uint32(e.SF)}]
			if !ok {
				ev.call = -1
			} else {
				ev.call = i
				var next *sample
				for _, f := range conn[k+1:] {
					if f.Gen == e.Gen {
						next = &sample{f.Stamp, f.BSend}
						break
					}
				}
				if we, ok := writeEnd[i]; ok && (next == nil || we.stamp < next.stamp) {
					next = &we
				}
				if next != nil {
					ev.ak = next.bs > e.BSend
				}
			}
		}
		connEvs = append(connEvs, ev)
	}
	all = append(all, connEvs...)
	for i, c := range calls {
		all = append(all, s1tEv{stamp: c.StartSt, k: "call-start", call: i})
		if c.EndSt > 0 {
			all = append(all, s1tEv{stamp: c.EndSt, k: "call-end", call: i})
		}
	}
	for g, st := range peerClose {
		all = append(all, s1tEv{stamp: st, k: "peer-close", gen: g})
	}
	sort.SliceStable(all, func(a, b int) bool { return all[a].stamp < all[b].stamp })

	delivered := map[int]bool{} // generation -> the sink call in progress has already been replayed at its delivery
	for _, ev := range all {
		if l.err != "" {
			break
		}
		switch ev.k {
		case "arm":
			if l.cur >= 0 {
				l.ensureJoined(l.cur, false)
			}
			if ev.gen != len(l.gens) {
				l.fail("ArmStart number %d recorded as generation %d", len(l.gens), ev.gen)
				continue
			}
			l.emit("pub")
			l.gens = append(l.gens, &s1tG{lock: -1, req: -1})
			l.cur = ev.gen
		case "up":
			l.emit("up")
			g := l.g(ev.gen)
			g.connUp, g.sockOpen = true, true
			l.tgen = ev.gen
		case "sel":
			// CommitSelected is called by Start (active) / the accept goroutine (passive) right before the engine is spawned
			l.emit("sel:1")
			l.selected = true
			if g := l.g(ev.gen); g.connUp && g.eng == 0 {
				l.emit("sp:%d", ev.gen)
				g.eng = 1
			}
		case "stop-end":
			if ev.gen >= 0 && ev.gen < len(l.gens) {
				l.ensureJoined(ev.gen, ev.res == "timeout")
			}
		case "peer-close":
			if ev.gen >= 0 && ev.gen < len(l.gens) {
				l.gens[ev.gen].peerClosed = true
			}
		case "call-start":
			i := ev.call
			s := l.snd[i]
			l.emit("b:%d:%s:%d", i, s.kind, s.nblk)
			s.pc = 1
			if s.kind == "a" && s.call.Outcome == "notselected" {
				l.ensureSel0() // SendAsync is refused only by the B1 gate: the refusal is the observation that the state had left Selected
			}
			l.advance(i, 3)
		case "call-end":
			l.finishCall(ev.call)
		case "write-begin":
			i, ok := senderOf[ev.call]
			if !ok {
				continue
			}
			s := l.snd[i]
			if s.implicit && s.pc == 0 {
				l.emit("b:%d:a:%d", i, s.nblk)
				s.pc = 1
			}
			l.advance(i, 6)
			if l.err == "" && s.pc != 6 {
				l.fail("sender %d called Write (generation %d) but its pre-write check fails in the linearization (pc %d, result %s)", i, ev.gen, s.pc, s.wres)
			}
			if l.err == "" && s.ep != ev.gen {
				l.fail("sender %d pinned generation %d in the linearization but called Write with the socket of generation %d", i, s.ep, ev.gen)
			}
		case "enq":
			g := l.g(ev.gen)
			if g.lock >= 0 && (l.snd[g.lock].pc == 6 || l.snd[g.lock].pc == 7) {
				l.advance(g.lock, 8)
			}
		case "block":
			if ev.call < 0 {
				l.fail("a block with unknown system bytes %#x was written on generation %d", ev.sb, ev.gen)
				continue
			}
			s := l.snd[ev.call]
			if s.pc == 6 || s.pc == 7 {
				l.advance(ev.call, 8)
			}
			l.emit("xm:%d:%d", ev.gen, routerB01(ev.ak))
			if ev.ak {
				s.acked++
			}
			g := l.g(ev.gen)
			if g.eng != 2 || g.req != ev.call {
				l.fail("a block of sender %d (pinned generation %d, pc %d) went out on the socket of generation %d, whose engine is not transmitting that request in the linearization", ev.call, s.ep, s.pc, ev.gen)
			} else if ev.ak && s.acked == s.nblk {
				// the last block is ACKed: runSend returns nil and the engine reports at once (req.done <- nil), before anything
				// else it does — in particular before it can notice a dropped line.  A sender that then leaves Write through the
				// teardown broadcast although this report is in is rejected by the model (`bl` is disabled).
				l.engineFinish(ev.gen, "ok")
			}
		case "write-end":
			i, ok := senderOf[ev.call]
			if !ok {
				continue
			}
			l.writeEnd(i, ev.res)
		case "deliver-begin":
			code := ev.eff + map[bool]string{false: "0", true: "1"}[ev.e]
			l.emit("rx:%d:%s", ev.gen, code)
			delivered[ev.gen] = true
			if ev.e {
				g := l.g(ev.gen)
				g.eng = 3
			}
		case "deliver-end":
			g := l.g(ev.gen)
			if g.eng == 3 {
				l.emit("rt:%d", ev.gen)
				if g.req >= 0 {
					g.eng = 2
				} else {
					g.eng = 1
				}
			}
		case "sink-end":
			if delivered[ev.gen] {
				delete(delivered, ev.gen)
				continue
			}
			code := ev.eff
			if code == "F" || code == "C" {
				code += map[bool]string{false: "0", true: "1"}[ev.e]
			}
			l.emit("rx:%d:%s", ev.gen, code)
			if (ev.eff == "F" || ev.eff == "C") && ev.e {
				l.g(ev.gen).eng = 3 // the model delivers here; the implementation did not call DeliverOwnedFrame
			}
		}
	}
	for gi := range l.gens {
		if l.err == "" {
			l.flushStranded(gi)
		}
	}
	return l, senderOf
}

func (l *s1tLin) writeEnd(i int, res string) {
	s := l.snd[i]
	g := l.g(s.ep)
	switch res {
	case "ok", "sendfailed", "ctx", "ioerr":
		if s.pc == 6 || s.pc == 7 {
			l.advance(i, 8)
		}
		if s.pc != 8 {
			l.fail("sender %d: Write returned %s (the engine's report) but the request was never handed to the engine in the linearization (pc %d)", i, res, s.pc)
			return
		}
		if s.engRes == "" {
			if g.eng == 3 && g.req == i {
				l.emit("rt:%d", s.ep)
				g.eng = 2
			}
			l.engineFinish(s.ep, s1tModelRes(res))
		}
		if l.err != "" {
			return
		}
		l.emit("rs:%d", i)
		s.wres = map[string]string{"ok": "ok", "sendfailed": "sendfailed", "ctx": "aborted", "ioerr": "ioerr"}[res]
		if s1tModelRes(res) != s.engRes {
			l.fail("sender %d: Write returned %s but the engine had reported %s in the linearization", i, res, s.engRes)
			return
		}
		s.pc = 9
	case "closed":
		if s.pc == 6 {
			l.advance(i, 7)
		}
		if s.pc == 7 || s.pc == 8 {
			l.ensureGenDone(s.ep)
			l.emit("bl:%d", i)
			s.wres, s.pc = "closed", 9
		}
		if s.pc != 9 {
			l.fail("sender %d: Write returned connection-closed at pc %d", i, s.pc)
			return
		}
	default:
		l.fail("sender %d: Write returned %q", i, res)
		return
	}
	l.unlock(i)
}

func (l *s1tLin) finishCall(i int) {
	s := l.snd[i]
	c := s.call
	if c == nil {
		return
	}
	switch {
	case s.pc == 13:
	case s.kind == "a":
		switch c.Outcome {
		case "sent":
			if s.pc == 3 {
				l.advance(i, 4)
			}
		case "closed":
			if s.pc == 3 {
				l.ensureCancel(s.ep)
				l.emit("q:%d:c", i)
				s.pc = 13
			}
		case "ctx":
			if s.pc == 3 {
				l.emit("cx:%d", i)
				l.emit("q:%d:x", i)
				s.pc = 13
			}
		}
	case s.pc == 10:
		l.emit("ii:%d", i)
		switch c.Outcome {
		case "reply":
			l.emit("d:%d:r", i)
		case "timeout":
			l.emit("d:%d:t", i)
		case "closed":
			l.ensureCancel(s.ep)
			l.emit("d:%d:c", i)
		case "ctx":
			l.emit("cx:%d", i)
			l.emit("d:%d:x", i)
		default:
			l.fail("sender %d wrote its message and returned %s", i, c.Outcome)
			return
		}
		l.emit("di:%d", i)
		s.pc = 13
	case s.pc == 3 && (c.Outcome == "closed" || c.Outcome == "notselected"):
		// never called Write: the pre-write check refused
		if c.Outcome == "closed" {
			l.ensureCancel(s.ep)
		} else {
			l.ensureSel0()
		}
		l.advance(i, 6)
		if l.err == "" && s.pc != 9 {
			l.fail("sender %d returned %s without calling Write, but its pre-write check passes in the linearization", i, c.Outcome)
			return
		}
		if l.err == "" {
			l.unlock(i)
		}
	default:
		l.fail("call %d (%s) ended with %s at shadow pc %d: no placement rule", i, s.kind, c.Outcome, s.pc)
	}
}

// s1tObservedClass maps the model's outcome names onto the harness's classification of the returned error.
func s1tObservedClass(model, kind string) string {
	model = strings.TrimPrefix(model, "~")
	switch model {
	case "aborted":
		return "ctx"
	case "ioerr", "sendfailed":
		return "writeerr"
	}
	return model
}

type s1tExpect struct {
	M       rMetrics                 // hsms metrics at the (quiescent) end
	Blocks  *secs1.ConnectionMetrics // secs1 block metrics (may be nil)
	Checked bool                     // compare the counters (false: the endpoint was not quiescent when they were read)
}

// s1tCheck replays the recorded history of one endpoint through the Lean model and compares.  It returns the violations
// as (what, detail) pairs of kind `correspondence`.
func s1tCheck(c *Ctx, rec *s1tRec, calls []s1tCall, exp s1tExpect) (viols [][2]string, replay map[string]any) {
	if c.Lean == nil {
		return nil, nil
	}
	evs := rec.tr.Events()
	rec.mu.Lock()
	conn := append([]s1tConnEv(nil), rec.conn...)
	pc := map[int]int64{}
	for k, v := range rec.peerClose {
		pc[k] = v
	}
	rec.mu.Unlock()
	l, _ := s1tLinearize(calls, evs, conn, pc, int(exp.M.AsyncEr), int(exp.M.Drop))
	replay = map[string]any{"family": "secs1-transport-history", "endpoint": rec.Name, "calls": calls, "tokens": strings.Join(l.toks, " ")}
	add := func(what, detail string) {
		viols = append(viols, [2]string{what, "SECS-I " + rec.Name + ": " + detail})
	}
	if l.err != "" {
		add("s1t-history-not-linearizable", "the recorded history cannot be arranged into a run of the SECS-I transport model: "+l.err)
		return viols, replay
	}
	if os.Getenv("VERIF_S1T_DEBUG") == "2" {
		fmt.Fprintf(os.Stderr, "S1T %s calls=%v\n  tokens: %s\n", rec.Name, calls, strings.Join(l.toks, " "))
	}
	ans := c.Lean.Ask("s1t.replay " + strings.Join(l.toks, " "))
	replay["model"] = ans
	status, f := parseReplayAnswer(ans)
	c.Stat("s1t-replay:" + strings.SplitN(status, "@", 2)[0])
	c.StatN("s1t-replayed-actions", len(l.toks))
	if status != "ok" {
		k := -1
		fmt.Sscanf(status, "disabled@%d", &k)
		tok := "?"
		if k >= 0 && k < len(l.toks) {
			tok = l.toks[k]
		}
		add("s1t-model-rejects-history", fmt.Sprintf("the model of the SECS-I transport does not allow step %q (%s) of the recorded history (context %v)", tok, status, l.toks[max(0, k-6):min(len(l.toks), k+3)]))
		return viols, replay
	}
	if p := f["P"]; p != "-" && p != "" {
		add("s1t-proved-predicate-fails-on-replay", "predicates proved invariant fail on the replayed configuration: "+p)
	}
	// outcomes
	outs := map[int]string{}
	for _, o := range strings.Split(f["O"], ",") {
		var i int
		var v string
		if n, _ := fmt.Sscanf(strings.Replace(o, ">", " ", 1), "%d %s", &i, &v); n == 2 {
			outs[i] = v
		}
	}
	for i, cl := range calls {
		if cl.EndSt == 0 {
			continue
		}
		want := cl.Outcome
		if cl.Kind == "f" && want == "nilnil" {
			want = "sent"
		}
		got := s1tObservedClass(outs[i], cl.Kind)
		if got != want {
			add("s1t-outcome-differs-from-model", fmt.Sprintf("call %d (%s) returned %s; in the model's run of the same history it returns %s", i, cl.Kind, want, outs[i]))
		}
	}
	if exp.Checked {
		var ms, mr, me, md, ma uint64
		var mi int64
		fmt.Sscanf(strings.ReplaceAll(f["M"], ",", " "), "%d %d %d %d %d %d", &ms, &mr, &mi, &me, &md, &ma)
		if ms != exp.M.Sent || mr != exp.M.Recv || mi != exp.M.Inflight || me != exp.M.Err || md != exp.M.Drop || ma != exp.M.AsyncEr {
			add("s1t-counters-differ-from-model", fmt.Sprintf("counters (sent,recv,inflight,err,drop,asyncErr) = %d,%d,%d,%d,%d,%d on the connection, %s in the model's run of the same history",
				exp.M.Sent, exp.M.Recv, exp.M.Inflight, exp.M.Err, exp.M.Drop, exp.M.AsyncEr, f["M"]))
		}
		if exp.Blocks != nil {
			var bs, br, bt, bf uint64
			fmt.Sscanf(strings.ReplaceAll(f["B"], ",", " "), "%d %d %d %d", &bs, &br, &bt, &bf)
			slack := uint64(0) // a block ACKed just before its request was cut short is not seen as ACKed by the recorder
			for _, e := range evs {
				if e.Kind == "write-end" && !e.Ctrl && e.Res != "ok" {
					slack++
				}
			}
			rs, rr, rf := exp.Blocks.BlockSendCount(), exp.Blocks.BlockRecvCount(), exp.Blocks.BlockSendFailedCount()
			if rs < bs || rs > bs+slack || rr != br || rf != bf || exp.Blocks.BlockRetryCount() < bt {
				add("s1t-block-counters-differ-from-model", fmt.Sprintf("block counters (send,recv,retry,sendFailed) = %d,%d,%d,%d on the connection, %s in the model's run of the same history (retry: at least the model's)",
					rs, rr, exp.Blocks.BlockRetryCount(), rf, f["B"]))
			}
		}
	}
	return viols, replay
}
