module verifharness

go 1.26.0

require github.com/arloliu/go-secs/v2 v2.0.0

require (
	github.com/phsym/console-slog v0.3.1 // indirect
	github.com/puzpuzpuz/xsync/v3 v3.5.1 // indirect
)

replace github.com/arloliu/go-secs/v2 => /repo
