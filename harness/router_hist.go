package main

// Recorded history of one scenario run against the real connection, and the observation-guided
// linearizer that turns it into an action list for the Lean router model (Model/Router.lean).
//
// The linearizer is NOT trusted: it only proposes an interleaving.  The Lean driver decides whether
// every proposed action is enabled in the model and reports the model's outcomes / wire / handler
// deliveries / counters, which are then compared with what was observed on the implementation.

import (
	"fmt"
	"sort"
	"strings"
	"time"
)

type rHDeliv struct {
	Stamp   int64  `json:"stamp"`
	Handler int    `json:"handler"`
	Tag     int64  `json:"tag"`
	SB      uint32 `json:"sb"`
	Fn      byte   `json:"fn"`
	W       bool   `json:"w"`
}

type rMetrics struct {
	Sent, Recv         uint64
	Inflight           int64
	Err, Drop, AsyncEr uint64
	Retry              int64
}

func (m rMetrics) String() string {
	return fmt.Sprintf("%d,%d,%d,%d,%d,%d,%d", m.Sent, m.Recv, m.Inflight, m.Err, m.Drop, m.AsyncEr, m.Retry)
}

type rSnap struct {
	Stamp int64    `json:"stamp"`
	M     rMetrics `json:"m"`
	Label string   `json:"label"`
}

type rLifeEv struct {
	Stamp int64  `json:"stamp"`
	What  string `json:"what"` // deselect | reselect (peer-driven Deselect / Select on a live generation)
	Gen   int    `json:"gen"`
}

type rHistory struct {
	NSenders        int           `json:"n_senders"`
	NHandlers       int           `json:"n_handlers"`
	Calls           []rCallResult `json:"calls"`
	In              [][]rFrame    `json:"in"`  // per generation: frames the peer received
	Out             [][]rFrame    `json:"out"` // per generation: frames the peer sent
	Dials           []int64       `json:"dials"`
	FailedDials     []int64       `json:"failed_dials"`      // stamps of dial attempts the harness refused (an epoch is published and torn down for each)
	Closes          []int64       `json:"closes"`            // peer-side close stamp per generation (0 = not closed by the peer)
	CloseT          []int64       `json:"-"`                 // wall clock (unix nanos) of the peer-side close
	NotSelFid       []int         `json:"not_selected_fids"` // data frames the peer sent while it had the link deselected
	Handled         []rHDeliv     `json:"handled"`
	Snaps           []rSnap       `json:"snaps"`
	Life            []rLifeEv     `json:"life"`
	CloseCall       [2]int64      `json:"close_call"`       // stamps around conn.Close()
	GenDraws        uint32        `json:"gen_draws"`        // final value of the system-bytes counter (hook), 0 if unknown
	ValidateSession bool          `json:"validate_session"` // the connection runs WithSessionIDValidation(true); its own SessionID is 0xFFFF
	// calls whose goroutine the application (its trace logger) parked right after the transport write returned, i.e.
	// between "written" and "waiting": the linearizer keeps them at `written` until the call returns
	Parked map[int]bool `json:"parked,omitempty"`
	// control transactions the harness made through the runtime's WriteMessage: system bytes -> call index
	CtrlSB      map[uint32]int `json:"ctrl_sb,omitempty"`
	ReleaseT    int64          `json:"-"` // wall clock (unix nanos) at which the parked calls were released (0 = none)
	PromptBound time.Duration  `json:"-"` // bound for "promptly" (0 = 1.5 s)
	// extremes of the reconnecting gauge seen by the sampler over the whole run (from before Open to after the last call)
	RetryMin int64 `json:"retry_gauge_min"`
	RetryMax int64 `json:"retry_gauge_max"`
}

// ---- linearizer

type linEvent struct {
	stamp int64
	kind  int // order of kinds at equal stamp is irrelevant: stamps are unique
	gen   int
	idx   int // call index / frame index / snap index
}

const (
	evDial = iota
	evPeerRead
	evSendStart
	evSendEnd
	evHandler
	evCallStart
	evCallEnd
	evSnap
	evPeerClose
	evCloseCall
	evCloseRet
	evLife
	evFailedDial
)

type shSender struct {
	kind     string // s f a c x(burn)
	sb       uint32
	hasSB    bool
	pc       int // 0 new 1 begun 2 pinned 3 gated 4 registered 5 checked 6 written 7 waiting 8 decided 9 unwinding 10 done
	ep       int
	chanFull bool
	onWire   bool
	call     *rCallResult
	wantNS   bool // waiting for sel:0 to take the not-selected exit
	lib      bool // a send the library made on its own (S9Fx notice): no harness call behind it
	parked   bool // the call's goroutine was held between the write and the reply wait (rHistory.Parked)
}

type shEpoch struct{ ctxDone, connOpen, joined bool }

type linearizer struct {
	h                          *rHistory
	toks                       []string
	snd                        []*shSender
	bySB                       map[uint32]int
	epochs                     []*shEpoch
	cur                        int
	selected                   bool
	pending                    map[int][]rFrame // per generation: peer frames sent but not yet dispatched in the linearization
	handledF                   map[int]bool     // fid delivered to handler 0
	orphanF                    map[uint32]int   // sb -> number of TransactionNotOpen rejects seen from the connection
	reg                        map[[2]int]int   // (epoch, sb) -> sender
	inB                        map[int]bool
	err                        string
	ctrlOf                     map[int]int // generation -> ctrl sender id (its Select.req)
	inPos                      map[int]int // per generation: next inbound frame to replay
	stranded                   map[int]int // per epoch: async frames still queued at teardown
	epOf                       map[int]int // peer generation -> model epoch (refused dials create epochs without a generation)
	ctrlEp                     map[int]int // epoch -> ctrl sender id
	loopOn                     bool
	genOf                      map[int]int // model epoch -> peer generation
	inSel0                     bool
	dropBudget, asyncErrBudget int
	dropWin                    bool // a drop has been initiated and the next Select has not completed
}

func (l *linearizer) emit(format string, a ...any) {
	l.toks = append(l.toks, fmt.Sprintf(format, a...))
}

func (l *linearizer) fail(format string, a ...any) {
	if l.err == "" {
		l.err = fmt.Sprintf(format, a...)
	}
}

func routerB01(b bool) int {
	if b {
		return 1
	}
	return 0
}

func (f rFrame) offered() bool { // offered to the reply registry
	if f.PType != 0 {
		return false
	}
	switch f.SType {
	case 0:
		return !f.W() && f.Fn()%2 == 0
	case 2, 4, 6, 7:
		return true
	}
	return false
}

// routerForeign: with session validation on, a data frame (other than S9F1) of another session is screened out.
func (l *linearizer) routerForeign(f rFrame) bool {
	return l.h.ValidateSession && f.IsData() && f.Session != 0xFFFF && !(f.Stream() == 9 && f.Fn() == 1)
}

func (f rFrame) token(gen int) string {
	switch {
	case f.PType != 0 || !rValidSType(f.SType) || (f.SType != 0 && f.Len != 10):
		return fmt.Sprintf("rv:%d:B:%d", gen, f.Fid)
	case f.SType == 0:
		return fmt.Sprintf("rv:%d:D:%d:%d:%d:%d", gen, f.Fid, f.SB, f.Fn(), routerB01(f.W()))
	case f.SType == 2 || f.SType == 4 || f.SType == 6:
		return fmt.Sprintf("rv:%d:C:%d:%d:%d", gen, f.Fid, f.SB, f.SType)
	case f.SType == 7:
		return fmt.Sprintf("rv:%d:R:%d:%d:%d", gen, f.Fid, f.SB, f.B3)
	}
	return "" // control requests (Select/Deselect/Linktest.req, Separate): handled by the responder, not the router
}

// rKindMatch mirrors the registry's reply-kind match: a data secondary only hits a data waiter, a control response
// only a control waiter, a Reject.req either.
func rKindMatch(senderKind string, f rFrame) bool {
	switch f.SType {
	case 0:
		return senderKind != "c"
	case 2, 4, 6:
		return senderKind == "c"
	}
	return true
}

func rValidSType(s byte) bool { return s <= 7 && s != 8 || s == 9 }

// owner returns the open correlating sender that owns (cur, sb) in the shadow registry, or -1.
func (l *linearizer) owner(sb uint32) int {
	if l.cur < 0 {
		return -1
	}
	if i, ok := l.reg[[2]int{l.cur, int(sb)}]; ok {
		return i
	}
	return -1
}

func (l *linearizer) ensureSel0() {
	if l.selected {
		if l.cur >= 0 {
			if g, ok := l.genOf[l.cur]; ok && l.dropWin && !l.inSel0 {
				// a dropped generation: every frame the peer received on it was written (B2 gate) while still Selected,
				// even if the peer's reader goroutine stamped the read late
				l.inSel0 = true
				l.processRead(g, len(l.h.In[g])-1)
				l.inSel0 = false
			}
			l.forceAll(l.cur) // what the peer wrote before was dispatched while still Selected
		}
		l.emit("sel:0")
		l.selected = false
		for i, s := range l.snd {
			if s.wantNS && s.pc == 1 {
				l.stepsNotSelected(i)
			}
		}
	}
}

func (l *linearizer) ensureTeardown(e int) { l.teardown(e, true) }

// teardown emits the end of epoch e: involuntary = a drop (the reconnect loop starts), else a Close().
func (l *linearizer) teardown(e int, involuntary bool) {
	if e < 0 || e >= len(l.epochs) || l.epochs[e].ctxDone {
		return
	}
	// everything the peer managed to write on e was read by e's receive loop before it saw the close
	l.forceAll(e)
	// async frames accepted into this generation's queue but never seen by the peer: still queued at teardown
	for i, s := range l.snd {
		if s.kind == "a" && s.pc == 3 && s.ep == e && s.call != nil && s.call.Outcome == "sent" {
			l.emit("q:%d:r", i)
			s.pc = 10
			l.stranded[e]++
		}
	}
	if l.cur == e {
		l.ensureSel0()
	}
	// stranded frames the drain goroutine still picked up: refused by the B2 gate (drop + async error) ...
	d := min(l.stranded[e], l.dropBudget)
	for k := 0; k < d; k++ {
		l.emit("dn:%d:1", e)
	}
	l.dropBudget -= d
	l.asyncErrBudget -= d
	l.stranded[e] -= d
	if involuntary && !l.loopOn {
		l.emit("ls") // react: startConnectLoop before the teardown
		l.loopOn = true
	}
	l.emit("td:%d", e)
	l.epochs[e].ctxDone = true
	l.epochs[e].connOpen = false
	// the library's own control transactions of this generation (Select procedure, linktest) are released too
	for i, s := range l.snd {
		if s.kind == "c" && s.pc == 7 && s.ep == e {
			l.emit("d:%d:c", i)
			l.emit("di:%d", i)
			l.emit("dr:%d", i)
			delete(l.reg, [2]int{s.ep, int(s.sb)})
			s.pc = 10
		}
	}
	// ... or failed on the dead socket / cancelled context (async error only)
	a := min(l.stranded[e], max(l.asyncErrBudget, 0))
	for k := 0; k < a; k++ {
		l.emit("dn:%d:1", e)
	}
	l.asyncErrBudget -= a
	l.stranded[e] -= a
}

func (l *linearizer) ensureJoin(e int, involuntary bool) {
	l.teardown(e, involuntary)
	if !l.epochs[e].joined {
		l.emit("jn:%d", e)
		l.epochs[e].joined = true
	}
}

func (l *linearizer) stepsNotSelected(i int) {
	s := l.snd[i]
	if s.pc == 1 {
		l.emit("p:%d", i)
		s.ep = l.cur
		s.pc = 2
	}
	l.emit("g:%d", i)
	s.pc = 10
	s.wantNS = false
}

// advanceTo emits sender i's own steps up to (and including) program counter `pc` where the shadow says
// they take the non-failing branch.
func (l *linearizer) advanceTo(i int, pc int) {
	s := l.snd[i]
	for s.pc < pc && l.err == "" {
		switch s.pc {
		case 1:
			if l.cur < 0 {
				l.fail("sender %d: no epoch to pin", i)
				return
			}
			l.emit("p:%d", i)
			s.ep = l.cur
			s.pc = 2
		case 2:
			if s.kind != "c" && !l.selected && l.cur >= 0 {
				l.forceAll(l.cur) // a pending Select.rsp / Select.req of the peer may not have been replayed yet
			}
			if s.kind != "c" && !l.selected {
				st, en := int64(0), int64(0)
				if s.call != nil {
					st, en = s.call.Start, s.call.End
				}
				l.fail("sender %d (kind %s, outcome %s, call %d..%d, on wire %v): the gate would refuse here (not selected in the linearization; epoch %d, drop window %v, %d tokens so far, last %v)",
					i, s.kind, s.outcome(), st, en, s.onWire, l.cur, l.dropWin, len(l.toks), l.toks[max(0, len(l.toks)-6):])
				return
			}
			l.emit("g:%d", i)
			s.pc = 3
		case 3:
			if s.kind == "s" || s.kind == "c" {
				l.emit("r:%d", i)
				l.reg[[2]int{s.ep, int(s.sb)}] = i
				s.chanFull = false
				s.pc = 4
			} else if s.kind == "f" {
				s.pc = 4 // no registration: straight to writeFrame
			} else {
				return // async: the enqueue is emitted by the caller
			}
		case 4:
			l.emit("wc:%d", i)
			s.pc = 5
		case 5:
			l.emit("w:%d:1", i)
			s.pc = 6
			if s.kind == "f" {
				s.pc = 10
				return
			}
		case 6:
			l.emit("ii:%d", i)
			s.pc = 7
		default:
			return
		}
	}
}

func (s *shSender) outcome() string {
	if s.call == nil {
		return "-"
	}
	return s.call.Outcome
}

func (l *linearizer) forceUpTo(gen int, fid int) {
	q := l.pending[gen]
	found := -1
	for k, f := range q {
		if f.Fid == fid {
			found = k
			break
		}
	}
	if found < 0 {
		return
	}
	for k := 0; k <= found; k++ {
		f := l.pending[gen][0]
		l.pending[gen] = l.pending[gen][1:]
		l.emitRecv(gen, f)
	}
}

func (l *linearizer) forceAll(gen int) {
	for len(l.pending[gen]) > 0 {
		f := l.pending[gen][0]
		l.pending[gen] = l.pending[gen][1:]
		l.emitRecv(gen, f)
	}
}

func (l *linearizer) emitRecv(gen int, f rFrame) {
	tok := f.token(gen)
	if l.routerForeign(f) {
		// counted at the receive chokepoint (if Selected), then answered with S9F1 and dropped
		l.emit("rv:%d:F:%d", gen, f.Fid)
		return
	}
	if tok == "" {
		// peer-driven Deselect.req / Select.req on a live generation: the receive goroutine flips the state synchronously
		if f.PType == 0 && f.SType == 3 && l.selected {
			l.emit("sel:0")
			l.selected = false
			for i, s := range l.snd {
				if s.wantNS && s.pc == 1 {
					l.stepsNotSelected(i)
				}
			}
		}
		if f.PType == 0 && f.SType == 1 && !l.selected && gen == l.cur {
			l.emit("sel:1")
			l.selected = true
		}
		return
	}
	hit := false
	if f.offered() && (f.SType != 0 || l.selected) {
		if j := l.owner(f.SB); j >= 0 && rKindMatch(l.snd[j].kind, f) {
			s := l.snd[j]
			miss := l.missObserved(f)
			if miss && s.call != nil {
				l.emitB(j) // sender j had already left (deregistered) when this frame was routed
			} else {
				hit = true
				s.chanFull = true
			}
		}
	}
	l.emit("%s", tok)
	_ = hit
	// a control response routed to the library's own control transaction (Select procedure, linktest) completes it;
	// a routed Select.rsp(0) commits Selected on the receive goroutine first
	if f.PType == 0 && (f.SType == 2 || f.SType == 4 || f.SType == 6) {
		if c := l.owner(f.SB); c >= 0 && l.snd[c].kind == "c" && l.snd[c].pc == 7 && l.snd[c].ep == gen && gen == l.cur {
			if f.SType == 2 && f.B3 == 0 && !l.selected {
				l.emit("sel:1")
				l.selected = true
				l.dropWin = false
			}
			l.emit("d:%d:r", c)
			l.emit("di:%d", c)
			l.emit("dr:%d", c)
			delete(l.reg, [2]int{l.snd[c].ep, int(l.snd[c].sb)})
			l.snd[c].pc = 10
		}
	}
}

// missObserved: the history shows that frame f missed the registry (handlers got it / the connection answered
// a control response with Reject(TransactionNotOpen)).
func (l *linearizer) missObserved(f rFrame) bool {
	switch {
	case f.SType == 0:
		return l.handledF[f.Fid]
	case f.SType == 2 || f.SType == 4 || f.SType == 6:
		return l.orphanF[f.SB] > 0
	}
	return false
}

func (l *linearizer) laterCtrlSame(gen int, f rFrame) bool {
	for _, g := range l.pending[gen] {
		if g.SB == f.SB && (g.SType == 2 || g.SType == 4 || g.SType == 6) {
			return true
		}
	}
	return false
}

// emitB emits sender i's outcome and deferred calls.
func (l *linearizer) emitB(i int) {
	s := l.snd[i]
	if s.pc >= 10 || l.inB[i] || l.err != "" {
		return
	}
	l.inB[i] = true
	defer delete(l.inB, i)
	c := s.call
	gen := s.ep
	if s.pc == 6 && s.parked {
		l.advanceTo(i, 7) // released: the in-flight increment, then the four-way wait
	}
	switch s.pc {
	case 7: // parked in the select
		switch c.Outcome {
		case "reply":
			l.forceUpTo(gen, int(c.ReplyTag))
			l.emit("d:%d:r", i)
		case "reject", "nilnil":
			if !s.chanFull {
				want := func(f rFrame) bool {
					if f.SB != s.sb {
						return false
					}
					if c.Outcome == "reject" {
						return f.SType == 7
					}
					return f.SType == 2 || f.SType == 4 || f.SType == 6
				}
				for _, f := range l.pending[gen] {
					if want(f) {
						l.forceUpTo(gen, f.Fid)
						break
					}
				}
			}
			l.emit("d:%d:r", i)
		case "timeout":
			l.emit("d:%d:t", i)
		case "ctx":
			l.emit("cn:%d", i)
			l.emit("d:%d:x", i)
		case "closed":
			l.ensureTeardown(gen)
			l.emit("d:%d:c", i)
		default:
			l.fail("sender %d is parked in the reply wait but returned %s", i, c.Outcome)
			return
		}
		// frames with these system bytes that hit the registry without being consumed (duplicates, late replies,
		// replies that lost the race against T3 / cancel) were routed before the deferred deregister ran
		last := -1
		for _, f := range l.pending[gen] {
			if f.SB == s.sb && f.offered() && f.Stamp < c.End && !l.missObserved(f) {
				last = f.Fid
			}
		}
		if last >= 0 {
			l.forceUpTo(gen, last)
		}
		l.emit("di:%d", i)
		l.emit("dr:%d", i)
	case 4, 5: // registered (or write-checked), never reached the wire
		switch c.Outcome {
		case "closed":
			if s.pc == 4 {
				l.ensureTeardown(gen)
				l.emit("wc:%d", i)
			} else {
				l.fail("sender %d passed the write check but returned closed", i)
			}
		case "writeerr":
			if s.pc == 4 {
				l.emit("wc:%d", i)
			}
			l.emit("w:%d:0", i)
		case "notselected":
			if s.pc == 4 {
				l.ensureSel0()
				l.emit("wc:%d", i)
			}
		default:
			l.fail("sender %d never reached the wire but returned %s", i, c.Outcome)
			return
		}
		l.emit("dr:%d", i)
	default:
		l.fail("sender %d: cannot finish from shadow pc %d with outcome %s", i, s.pc, c.Outcome)
		return
	}
	delete(l.reg, [2]int{s.ep, int(s.sb)})
	s.pc = 10
}

// processRead replays the connection's writes as the peer received them, up to frame idx of generation gen.
func (l *linearizer) processRead(gen, idx int) {
	h := l.h
	for l.inPos[gen] <= idx && l.err == "" {
		k := l.inPos[gen]
		l.inPos[gen]++
		f := h.In[gen][k]
		i, ok := l.bySB[f.SB]
		isPrimaryOfSender := ok && ((f.IsData() && f.Tag >= 0 && int(f.Tag) == i) || (f.IsData() && l.snd[i].lib) || ((f.SType == 1 || f.SType == 5) && f.PType == 0 && l.snd[i].kind == "c"))
		if !isPrimaryOfSender {
			continue
		}
		s := l.snd[i]
		ep, okE := l.epOf[gen]
		if !okE {
			l.fail("frame of sender %d arrived on generation %d before its dial", i, gen)
			continue
		}
		if s.pc >= 2 && s.ep != ep {
			l.fail("sender %d pinned epoch %d in the linearization but its frame arrived on generation %d (epoch %d)", i, s.ep, gen, ep)
			continue
		}
		if l.cur != ep {
			l.fail("frame of sender %d arrived on generation %d (epoch %d) while the linearization is at epoch %d", i, gen, ep, l.cur)
			continue
		}
		switch s.kind {
		case "s", "c":
			if s.parked {
				l.advanceTo(i, 6) // the frame is on the wire, the sender has not entered the reply wait yet
			} else {
				l.advanceTo(i, 7)
			}
		case "f":
			l.advanceTo(i, 6)
		case "a":
			// the call returned once the frame was queued; the drain goroutine writes it now (FIFO = the peer's read order)
			l.advanceTo(i, 3)
			if l.err == "" {
				l.emit("q:%d:r", i)
				s.pc = 10
				l.emit("dn:%d:1", ep)
			}
		}
	}
}

// wireIndex finds sender i's frame in the peer's inbound log.
func (l *linearizer) wireIndex(i int) (gen, idx int, ok bool) {
	for g, in := range l.h.In {
		for k, f := range in {
			if f.IsData() && int(f.Tag) == i && f.SB == l.snd[i].sb {
				return g, k, true
			}
		}
	}
	return 0, 0, false
}

// linearize builds the action list.
func linearize(h *rHistory) (toks []string, expectO map[int]string, l *linearizer) {
	l = &linearizer{h: h, bySB: map[uint32]int{}, cur: -1, pending: map[int][]rFrame{}, handledF: map[int]bool{},
		orphanF: map[uint32]int{}, reg: map[[2]int]int{}, inB: map[int]bool{}, ctrlOf: map[int]int{}, inPos: map[int]int{}, stranded: map[int]int{}, epOf: map[int]int{}, ctrlEp: map[int]int{}, genOf: map[int]int{}}
	for i := range h.Calls {
		c := &h.Calls[i]
		l.snd = append(l.snd, &shSender{kind: c.Kind, call: c})
	}
	for i := range h.Parked {
		if i >= 0 && i < len(l.snd) {
			l.snd[i].parked = true
		}
	}
	// system bytes: known from the wire
	maxSB := uint32(0)
	for g, in := range h.In {
		for _, f := range in {
			switch {
			case f.IsData() && f.Tag >= 0 && int(f.Tag) < len(l.snd) && !l.snd[f.Tag].hasSB:
				s := l.snd[f.Tag]
				s.sb, s.hasSB, s.onWire = f.SB, true, true
				l.bySB[f.SB] = int(f.Tag)
			case f.IsData() && f.Tag < 0 && f.Stream() == 9 && (f.Fn() == 1 || f.Fn() == 9):
				// an S9Fx notice the library sent on its own (fresh system bytes, async send path)
				id := len(l.snd)
				l.snd = append(l.snd, &shSender{kind: "a", sb: f.SB, hasSB: true, onWire: true, lib: true})
				l.bySB[f.SB] = id
			case f.PType == 0 && f.SType == 5 && c09CtrlCall(h, f.SB) >= 0:
				// a control transaction the harness made through the runtime's WriteMessage: it has a call record
				id := c09CtrlCall(h, f.SB)
				if l.snd[id].hasSB {
					continue
				}
				s := l.snd[id]
				s.sb, s.hasSB, s.onWire = f.SB, true, true
				l.bySB[f.SB] = id
			case f.PType == 0 && (f.SType == 1 || f.SType == 5): // Select.req of this generation / a Linktest.req of the library
				id := len(l.snd)
				l.snd = append(l.snd, &shSender{kind: "c", sb: f.SB, hasSB: true, onWire: true})
				l.bySB[f.SB] = id
				if f.SType == 1 {
					l.ctrlOf[g] = id
				}
			default:
				continue
			}
			if f.SB > maxSB {
				maxSB = f.SB
			}
		}
	}
	for sb, i := range h.CtrlSB { // a control transaction that never reached the wire: the harness drew its system bytes itself
		if i >= 0 && i < len(h.Calls) && !l.snd[i].hasSB {
			l.snd[i].sb, l.snd[i].hasSB = sb, true
			l.bySB[sb] = i
			if sb > maxSB {
				maxSB = sb
			}
		}
	}
	if h.GenDraws > maxSB {
		maxSB = h.GenDraws
	}
	// senders that never reached the wire drew system bytes too: give them the gaps, in call-start order
	var noWire []int
	for i, s := range l.snd {
		if !s.hasSB && s.call != nil && s.call.Outcome != "buildfail" {
			noWire = append(noWire, i)
		}
	}
	sort.Slice(noWire, func(a, b int) bool { return l.snd[noWire[a]].call.Start < l.snd[noWire[b]].call.Start })
	var gaps []uint32
	for sb := uint32(1); sb <= maxSB; sb++ {
		if _, ok := l.bySB[sb]; !ok {
			gaps = append(gaps, sb)
		}
	}
	for len(gaps) < len(noWire) {
		maxSB++
		gaps = append(gaps, maxSB)
	}
	for k, i := range noWire {
		l.snd[i].sb, l.snd[i].hasSB = gaps[k], true
		l.bySB[gaps[k]] = i
	}
	for sb := uint32(1); sb <= maxSB; sb++ {
		i, ok := l.bySB[sb]
		if !ok { // a draw nobody accounts for (farewell Separate, S9Fx notices): a sender that never proceeds
			i = len(l.snd)
			l.snd = append(l.snd, &shSender{kind: "x", sb: sb, hasSB: true})
			l.emit("b:%d:f", i)
		} else {
			l.emit("b:%d:%s", i, l.snd[i].kind)
		}
		l.snd[i].pc = 1
	}
	for _, d := range h.Handled {
		if d.Handler == 0 {
			l.handledF[int(d.Tag)] = true
		}
	}
	for i := 0; i < h.NHandlers; i++ {
		l.emit("ah")
	}
	if n := len(h.Snaps); n > 0 {
		last := h.Snaps[n-1].M
		refused := 0
		for _, c := range h.Calls {
			if c.Outcome == "notselected" {
				refused++
			}
		}
		l.dropBudget = max(int(last.Drop)-refused, 0)
		l.asyncErrBudget = int(last.AsyncEr)
	}
	// orphan control responses the connection answered with Reject(TransactionNotOpen)
	for _, in := range h.In {
		for _, f := range in {
			if f.PType == 0 && f.SType == 7 && f.B3 == 3 {
				l.orphanF[f.SB]++
			}
		}
	}
	// events
	var evs []linEvent
	for g, st := range h.Dials {
		evs = append(evs, linEvent{st, evDial, g, 0})
	}
	for _, st := range h.FailedDials {
		evs = append(evs, linEvent{st, evFailedDial, 0, 0})
	}
	for g, st := range h.Closes {
		if st > 0 {
			evs = append(evs, linEvent{st, evPeerClose, g, 0})
		}
	}
	for g, in := range h.In {
		for k, f := range in {
			evs = append(evs, linEvent{f.Stamp, evPeerRead, g, k})
		}
	}
	for g, out := range h.Out {
		for k, f := range out {
			evs = append(evs, linEvent{f.Stamp, evSendStart, g, k})
			if f.EndStmp > 0 {
				evs = append(evs, linEvent{f.EndStmp, evSendEnd, g, k})
			}
		}
	}
	for k, d := range h.Handled {
		if d.Handler == 0 {
			evs = append(evs, linEvent{d.Stamp, evHandler, 0, k})
		}
	}
	for i, c := range h.Calls {
		if c.Outcome == "buildfail" {
			continue
		}
		evs = append(evs, linEvent{c.Start, evCallStart, 0, i}, linEvent{c.End, evCallEnd, 0, i})
	}
	for k, s := range h.Snaps {
		evs = append(evs, linEvent{s.Stamp, evSnap, 0, k})
	}
	for k, e := range h.Life {
		evs = append(evs, linEvent{e.Stamp, evLife, e.Gen, k})
	}
	if h.CloseCall[0] > 0 {
		evs = append(evs, linEvent{h.CloseCall[0], evCloseCall, 0, 0})
	}
	if h.CloseCall[1] > 0 {
		evs = append(evs, linEvent{h.CloseCall[1], evCloseRet, 0, 0})
	}
	sort.Slice(evs, func(a, b int) bool { return evs[a].stamp < evs[b].stamp })

	for _, ev := range evs {
		if l.err != "" {
			break
		}
		switch ev.kind {
		case evDial:
			if l.cur >= 0 {
				l.ensureJoin(l.cur, true)
			}
			l.emit("pub")
			l.emit("up")
			l.epochs = append(l.epochs, &shEpoch{connOpen: true})
			l.cur = len(l.epochs) - 1
			l.epOf[ev.gen] = l.cur
			l.genOf[l.cur] = ev.gen
			if c, ok := l.ctrlOf[ev.gen]; ok {
				l.ctrlEp[l.cur] = c
			}
			if l.loopOn {
				l.emit("le") // tr.Start succeeded: connectLoop returns, the deferred decConnRetry runs
				l.loopOn = false
			}
		case evFailedDial:
			if l.cur >= 0 {
				l.ensureJoin(l.cur, true)
			}
			l.emit("pub")
			l.epochs = append(l.epochs, &shEpoch{})
			l.cur = len(l.epochs) - 1
			l.ensureJoin(l.cur, true)
		case evPeerClose:
			l.dropWin = true
		case evPeerRead:
			l.processRead(ev.gen, ev.idx)
		case evSendStart:
			f := h.Out[ev.gen][ev.idx]
			l.pending[l.epOf[ev.gen]] = append(l.pending[l.epOf[ev.gen]], f)
		case evSendEnd:
			// the write of frame k returned: frame k-1 has been dispatched
			if ev.idx > 0 {
				l.forceUpTo(l.epOf[ev.gen], h.Out[ev.gen][ev.idx-1].Fid)
			}
		case evHandler:
			d := h.Handled[ev.idx]
			for g := range l.pending {
				l.forceUpTo(g, int(d.Tag))
			}
		case evCallStart:
			s := l.snd[ev.idx]
			if s.onWire {
				continue
			}
			switch s.call.Outcome {
			case "sent":
				// an async frame that was accepted but never reached the peer: it passed the gate while Selected
				if s.kind == "a" && l.selected && l.cur >= 0 && !l.epochs[l.cur].ctxDone {
					l.advanceTo(ev.idx, 3)
				}
			case "notselected":
				if !l.selected {
					l.stepsNotSelected(ev.idx)
				} else {
					s.wantNS = true
				}
			case "closed", "writeerr":
				if !l.selected && l.cur >= 0 && !l.epochs[l.cur].ctxDone && !l.dropWin {
					l.forceAll(l.cur)
				}
				if s.kind == "a" && l.selected && l.cur >= 0 && !l.epochs[l.cur].ctxDone {
					l.advanceTo(ev.idx, 3) // passed the gate, then lost the enqueue select to the cancelled generation
				} else if s.kind == "a" && l.cur >= 0 {
					l.advanceTo(ev.idx, 2)
				} else if (s.kind == "s" || s.kind == "f") && l.selected && l.cur >= 0 && !l.epochs[l.cur].ctxDone {
					l.advanceTo(ev.idx, 4)
					if s.call.Outcome == "writeerr" {
						l.advanceTo(ev.idx, 5)
					}
				} else if l.cur >= 0 {
					// started inside the outage: it can only have pinned the dying generation now and passed the gate after the re-select
					l.advanceTo(ev.idx, 2)
				}
			}
		case evCallEnd:
			s := l.snd[ev.idx]
			c := s.call
			if s.onWire && s.pc < 10 {
				// the call returned before the peer goroutine stamped its read: the write happened before this point
				if g, k, ok := l.wireIndex(ev.idx); ok {
					l.processRead(g, k)
				}
			}
			switch {
			case s.pc >= 10:
			case (s.kind == "s" || s.kind == "c") && s.pc >= 4:
				l.emitB(ev.idx)
			case c.Outcome == "notselected":
				if l.selected {
					if !l.dropWin {
						l.fail("sender %d was refused (not selected) but the link was Selected during its whole call", ev.idx)
						continue
					}
					l.ensureSel0()
				}
				if s.pc < 10 {
					l.stepsNotSelected(ev.idx)
				}
			case c.Outcome == "notopen":
				l.emit("p:%d", ev.idx)
				s.pc = 10
			case s.kind == "a" && c.Outcome == "sent":
				l.advanceTo(ev.idx, 3) // the enqueue itself is placed in drain (= peer read) order, or before the teardown
			case s.kind == "a" && (c.Outcome == "closed" || c.Outcome == "ctx"):
				l.advanceTo(ev.idx, 3)
				if c.Outcome == "closed" {
					l.ensureTeardown(s.ep)
					l.emit("q:%d:c", ev.idx)
				} else {
					l.emit("cn:%d", ev.idx)
					l.emit("q:%d:x", ev.idx)
				}
				s.pc = 10
			case s.kind == "f" && (c.Outcome == "closed" || c.Outcome == "writeerr"):
				l.advanceTo(ev.idx, 4)
				if l.err != "" {
					continue
				}
				if c.Outcome == "closed" {
					l.ensureTeardown(s.ep)
					l.emit("wc:%d", ev.idx)
				} else {
					if s.pc == 4 {
						l.emit("wc:%d", ev.idx)
					}
					l.emit("w:%d:0", ev.idx)
				}
				s.pc = 10
			case s.kind == "s" && (c.Outcome == "closed" || c.Outcome == "writeerr"):
				// started inside a drop window: pin/gate/register could not be placed at call start
				l.advanceTo(ev.idx, 4)
				if l.err == "" {
					l.emitB(ev.idx)
				}
			default:
				l.fail("call %d (%s) ended with %s at shadow pc %d: no placement rule", ev.idx, s.kind, c.Outcome, s.pc)
			}
		case evSnap:
			for g := range l.pending {
				l.forceAll(g)
			}
			l.emit("snap")
		case evLife:
			e := h.Life[ev.idx]
			l.forceAll(l.epOf[e.Gen]) // the Deselect.req / Select.req frame itself flips the state (emitRecv)
		case evCloseCall:
		case evCloseRet:
			if l.cur >= 0 {
				l.forceAll(l.cur)
				l.ensureJoin(l.cur, false)
			}
			if l.loopOn {
				l.emit("le") // Close waits for the reconnect loop (connectLoopWg): its deferred decrement has run
				l.loopOn = false
			}
		}
	}
	for g := range l.pending {
		l.forceAll(g)
	}
	expectO = map[int]string{}
	for i, c := range h.Calls {
		if c.Outcome == "buildfail" {
			continue
		}
		expectO[i] = c.modelOutcome(l.snd[i].sb)
	}
	return l.toks, expectO, l
}

func (c rCallResult) modelOutcome(sb uint32) string {
	switch c.Outcome {
	case "reply":
		return fmt.Sprintf("reply:%d:%d:%d:%d", c.ReplyTag, c.ReplySB, c.ReplyFn, routerB01(c.ReplyW))
	case "nilnil":
		return "nilnil:*"
	case "reject":
		return fmt.Sprintf("reject:%d", c.Reason)
	}
	return c.Outcome
}

// parseReplayAnswer splits the driver's answer into its fields.
func parseReplayAnswer(ans string) (status string, fields map[string]string) {
	parts := strings.Fields(ans)
	fields = map[string]string{}
	if len(parts) == 0 {
		return "empty", fields
	}
	status = parts[0]
	for _, p := range parts[1:] {
		if k, v, ok := strings.Cut(p, "="); ok {
			fields[k] = v
		}
	}
	return
}

// c09CtrlCall returns the call index of the harness-made control transaction with these system bytes, or -1.
func c09CtrlCall(h *rHistory, sb uint32) int {
	if i, ok := h.CtrlSB[sb]; ok && i >= 0 && i < len(h.Calls) {
		return i
	}
	return -1
}
