package main

// C20 over the SECS-I transport: the conservation clauses (in-flight gauge zero at quiescence, sent = messages the peer
// received intact, received = messages the peer sent and got ACKed, error counter = T3 expiries) on a real secs1
// connection against the raw E4 peer.  Single-block messages, so one ACKed block = one message.

import (
	"context"
	"fmt"
	"sync"
	"time"

	"github.com/arloliu/go-secs/v2/secs1"
	"github.com/arloliu/go-secs/v2/secs2"
)

func c20SECS1(c *Ctx, nSync, nAsync, nUnsolicited int) {
	e, err := c09NewS1(0, 800*time.Millisecond)
	if err != nil {
		c.Violate("correspondence", "scenario-did-not-start", "secs1: "+err.Error(), nil)
		return
	}
	g := e.gen(0)
	stop := make(chan struct{})
	var peerWG sync.WaitGroup
	var pmu sync.Mutex
	peerSentAcked, withheld := 0, 0
	unsolLeft := nUnsolicited
	peerWG.Add(1)
	go func() {
		defer peerWG.Done()
		for {
			select {
			case <-stop:
				return
			default:
			}
			b, ok := g.peer.readByte(5 * time.Millisecond)
			if !ok {
				pmu.Lock()
				send := unsolLeft > 0
				if send {
					unsolLeft--
				}
				pmu.Unlock()
				if send { // an unsolicited primary from the equipment
					if g.peer.sendWire(c09S1Inbound(5, 1, 0x71000000+uint32(unsolLeft))) == 0x06 {
						pmu.Lock()
						peerSentAcked++
						pmu.Unlock()
					}
				}
				continue
			}
			if b != 0x05 {
				continue
			}
			w, good := g.peer.grantAndReceive()
			if !good || len(w) < 13 {
				continue
			}
			h := w[1:11]
			wbit := h[2]&0x80 != 0
			tag := rParseTag(w[11 : len(w)-2])
			if !wbit {
				continue
			}
			if tag%2 == 1 { // odd callers get no reply: T3
				pmu.Lock()
				withheld++
				pmu.Unlock()
				continue
			}
			rh := secs1.VerifHeader{DeviceID: c09S1Dev, RBit: true, Stream: h[2] & 0x7f, Function: h[3] + 1, SystemBytes: [4]byte{h[6], h[7], h[8], h[9]}}
			blk := secs1.VerifBlock{Header: secs1.VerifBuildHeader(rh, 1, true), Body: secs2.NewUintItem(4, uint32(tag)).ToBytes()}
			if g.peer.sendWire(secs1.VerifAppendTo(nil, blk)) == 0x06 {
				pmu.Lock()
				peerSentAcked++
				pmu.Unlock()
			}
		}
	}()
	type out struct{ kind, outcome string }
	outs := make([]out, nSync+nAsync)
	var wg sync.WaitGroup
	for i := 0; i < nSync+nAsync; i++ {
		i := i
		wg.Add(1)
		go func() {
			defer wg.Done()
			var r rCallResult
			item := secs2.NewUintItem(4, uint32(i))
			if i < nSync {
				reply, err := e.conn.SendDataMessage(context.Background(), 1, byte(1+2*(i%60)), true, item)
				rClassify(reply, err, &r)
				outs[i] = out{"s", r.Outcome}
			} else {
				err := e.conn.SendDataMessageAsync(context.Background(), 2, 1, false, item)
				rClassify(nil, err, &r)
				if r.Outcome == "nilnil" {
					r.Outcome = "sent"
				}
				outs[i] = out{"a", r.Outcome}
			}
		}()
	}
	fin := make(chan struct{})
	go func() { wg.Wait(); close(fin) }()
	replay := map[string]any{"sync": nSync, "async": nAsync, "unsolicited": nUnsolicited}
	select {
	case <-fin:
	case <-time.After(60 * time.Second):
		c.Violate("property", "send-never-returned", "SECS-I: a send call did not return within 60 s", replay)
	}
	// quiescence: every async frame written, every unsolicited primary sent
	deadline := time.Now().Add(10 * time.Second)
	for time.Now().Before(deadline) {
		pmu.Lock()
		left := unsolLeft
		pmu.Unlock()
		if left == 0 && len(c09S1Tags(g.peer)) >= nSync+nAsync {
			break
		}
		time.Sleep(5 * time.Millisecond)
	}
	time.Sleep(100 * time.Millisecond)
	close(stop)
	peerWG.Wait()
	m := rReadMetrics(e.conn)
	received := len(c09S1Tags(g.peer))
	timeouts := 0
	for _, o := range outs {
		c.Stat("secs1-outcome:" + o.outcome)
		if o.outcome == "timeout" {
			timeouts++
		}
	}
	pmu.Lock()
	acked := peerSentAcked
	pmu.Unlock()
	replay["outcomes"] = outs
	replay["metrics(sent,recv,inflight,err,drop,asyncErr,retry)"] = m.String()
	if m.Inflight != 0 {
		c.Violate("property", "inflight-not-zero-at-quiescence", fmt.Sprintf("SECS-I: in-flight gauge = %d with no send call running", m.Inflight), replay)
	}
	if int(m.Sent) != received {
		c.Violate("property", "sent-counter-differs-from-wire", fmt.Sprintf("SECS-I: DataMsgSendCount = %d but the peer received %d messages intact", m.Sent, received), replay)
	}
	if int(m.Recv) != acked {
		c.Violate("property", "recv-counter-differs-from-wire", fmt.Sprintf("SECS-I: DataMsgRecvCount = %d but the peer sent %d messages that were ACKed", m.Recv, acked), replay)
	}
	if int(m.Err) != timeouts {
		c.Violate("property", "err-counter-differs-from-outcomes", fmt.Sprintf("SECS-I: DataMsgErrCount = %d but %d calls timed out (T3)", m.Err, timeouts), replay)
	}
	if m.Retry != 0 {
		c.Violate("property", "retry-gauge-not-zero-at-quiescence", fmt.Sprintf("SECS-I: reconnecting gauge = %d on a healthy link", m.Retry), replay)
	}
	_ = e.conn.Close()
	if m2 := rReadMetrics(e.conn); m2.Inflight != 0 || m2.Retry != 0 {
		c.Violate("property", "inflight-not-zero-at-quiescence", fmt.Sprintf("SECS-I: after Close: in-flight %d, reconnecting %d", m2.Inflight, m2.Retry), replay)
	}
	_ = g.conn.Close()
	c.Count(fmt.Sprintf("secs1-conserve|%d|%d|%d", nSync, nAsync, nUnsolicited), true)
	c.Stat("scenario:secs1-conserve")
	if len(c.Res.Samples) < 8 {
		c.Sample(map[string]any{"scenario": "secs1-conserve", "sync": nSync, "async": nAsync, "unsolicited": nUnsolicited, "timeouts": timeouts,
			"peer_received": received, "peer_sent_acked": acked, "metrics(sent,recv,inflight,err,drop,asyncErr,retry)": m.String()})
	}
}
