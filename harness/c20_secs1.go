package main

// C20 over the SECS-I transport: the conservation clauses (in-flight gauge zero at quiescence, sent = messages the peer
// received intact, received = messages the peer sent and got ACKed, error counter = T3 expiries) on a real secs1
// connection against the raw E4 peer.  Single-block messages, so one ACKed block = one message.

import (
	"context"
	"fmt"
	"sync"
	"time"

	"github.com/arloliu/go-secs/v2/hsms"
	"github.com/arloliu/go-secs/v2/secs1"
	"github.com/arloliu/go-secs/v2/secs2"
)

func c20SECS1(c *Ctx, nSync, nAsync, nUnsolicited int) {
	e, err := c09NewS1(0, 800*time.Millisecond)
	if err != nil {
		c.Violate("correspondence", "scenario-did-not-start", "secs1: "+err.Error(), nil)
		return
	}
	g := e.gen(0)
	stop := make(chan struct{})
	var peerWG sync.WaitGroup
	var pmu sync.Mutex
	peerSentAcked, withheld := 0, 0
	unsolLeft := nUnsolicited
	peerWG.Add(1)
	go func() {
		defer peerWG.Done()
		for {
			select {
			case <-stop:
				return
			default:
			}
			b, ok := g.peer.readByte(5 * time.Millisecond)
			if !ok {
				pmu.Lock()
				send := unsolLeft > 0
				if send {
					unsolLeft--
				}
				pmu.Unlock()
				if send { // an unsolicited primary from the equipment
					if g.peer.sendWire(c09S1Inbound(5, 1, 0x71000000+uint32(unsolLeft))) == 0x06 {
						pmu.Lock()
						peerSentAcked++
						pmu.Unlock()
					}
				}
				continue
			}
			if b != 0x05 {
				continue
			}
			w, good := g.peer.grantAndReceive()
			if !good || len(w) < 13 {
				continue
			}
			h := w[1:11]
			wbit := h[2]&0x80 != 0
			tag := rParseTag(w[11 : len(w)-2])
			if !wbit {
				continue
			}
			if tag%2 == 1 { // odd callers get no reply: T3
				pmu.Lock()
				withheld++
				pmu.Unlock()
				continue
			}
			rh := secs1.VerifHeader{DeviceID: c09S1Dev, RBit: true, Stream: h[2] & 0x7f, Function: h[3] + 1, SystemBytes: [4]byte{h[6], h[7], h[8], h[9]}}
			blk := secs1.VerifBlock{Header: secs1.VerifBuildHeader(rh, 1, true), Body: secs2.NewUintItem(4, uint32(tag)).ToBytes()}
			if g.peer.sendWire(secs1.VerifAppendTo(nil, blk)) == 0x06 {
				pmu.Lock()
				peerSentAcked++
				pmu.Unlock()
			}
		}
	}()
	type out struct{ kind, outcome string }
	outs := make([]out, nSync+nAsync)
	hist := make([]s1tCall, nSync+nAsync) // the same calls, with stamps, for the replay through the transport model
	var wg sync.WaitGroup
	for i := 0; i < nSync+nAsync; i++ {
		i := i
		wg.Add(1)
		go func() {
			defer wg.Done()
			var r rCallResult
			item := secs2.NewUintItem(4, uint32(i))
			if i < nSync {
				hist[i] = s1tCall{Idx: i, Kind: "s", Tag: int64(i), StartSt: rStamp()}
				reply, err := e.conn.SendDataMessage(context.Background(), 1, byte(1+2*(i%60)), true, item)
				rClassify(reply, err, &r)
				outs[i] = out{"s", r.Outcome}
			} else {
				hist[i] = s1tCall{Idx: i, Kind: "a", Tag: int64(i), StartSt: rStamp()}
				err := e.conn.SendDataMessageAsync(context.Background(), 2, 1, false, item)
				rClassify(nil, err, &r)
				if r.Outcome == "nilnil" {
					r.Outcome = "sent"
				}
				outs[i] = out{"a", r.Outcome}
			}
			hist[i].Outcome, hist[i].EndSt = r.Outcome, rStamp()
		}()
	}
	fin := make(chan struct{})
	go func() { wg.Wait(); close(fin) }()
	replay := map[string]any{"sync": nSync, "async": nAsync, "unsolicited": nUnsolicited}
	select {
	case <-fin:
	case <-time.After(60 * time.Second):
		c.Violate("property", "send-never-returned", "SECS-I: a send call did not return within 60 s", replay)
	}
	// quiescence: every async frame written, every unsolicited primary sent
	deadline := time.Now().Add(10 * time.Second)
	for time.Now().Before(deadline) {
		pmu.Lock()
		left := unsolLeft
		pmu.Unlock()
		if left == 0 && len(c09S1Tags(g.peer)) >= nSync+nAsync {
			break
		}
		time.Sleep(5 * time.Millisecond)
	}
	time.Sleep(100 * time.Millisecond)
	close(stop)
	peerWG.Wait()
	m := rReadMetrics(e.conn)
	received := len(c09S1Tags(g.peer))
	timeouts := 0
	for _, o := range outs {
		c.Stat("secs1-outcome:" + o.outcome)
		if o.outcome == "timeout" {
			timeouts++
		}
	}
	pmu.Lock()
	acked := peerSentAcked
	pmu.Unlock()
	replay["outcomes"] = outs
	replay["metrics(sent,recv,inflight,err,drop,asyncErr,retry)"] = m.String()
	if m.Inflight != 0 {
		c.Violate("property", "inflight-not-zero-at-quiescence", fmt.Sprintf("SECS-I: in-flight gauge = %d with no send call running", m.Inflight), replay)
	}
	if int(m.Sent) != received {
		c.Violate("property", "sent-counter-differs-from-wire", fmt.Sprintf("SECS-I: DataMsgSendCount = %d but the peer received %d messages intact", m.Sent, received), replay)
	}
	if int(m.Recv) != acked {
		c.Violate("property", "recv-counter-differs-from-wire", fmt.Sprintf("SECS-I: DataMsgRecvCount = %d but the peer sent %d messages that were ACKed", m.Recv, acked), replay)
	}
	if int(m.Err) != timeouts {
		c.Violate("property", "err-counter-differs-from-outcomes", fmt.Sprintf("SECS-I: DataMsgErrCount = %d but %d calls timed out (T3)", m.Err, timeouts), replay)
	}
	if m.Retry != 0 {
		c.Violate("property", "retry-gauge-not-zero-at-quiescence", fmt.Sprintf("SECS-I: reconnecting gauge = %d on a healthy link", m.Retry), replay)
	}
	_ = e.conn.Close()
	if m2 := rReadMetrics(e.conn); m2.Inflight != 0 || m2.Retry != 0 {
		c.Violate("property", "inflight-not-zero-at-quiescence", fmt.Sprintf("SECS-I: after Close: in-flight %d, reconnecting %d", m2.Inflight, m2.Retry), replay)
	}
	_ = g.conn.Close()
	// correspondence: the recorded history against the Lean model of the transport's generation / hand-off layer
	select {
	case <-fin:
		sv, srep := s1tCheck(c, e.rec, hist, s1tExpect{M: rReadMetrics(e.conn), Blocks: e.conn.BlockMetrics(), Checked: true})
		for _, v := range sv {
			c.Violate("correspondence", v[0], v[1], srep)
		}
	default:
	}
	c.Count(fmt.Sprintf("secs1-conserve|%d|%d|%d", nSync, nAsync, nUnsolicited), true)
	c.Stat("scenario:secs1-conserve")
	if len(c.Res.Samples) < 8 {
		c.Sample(map[string]any{"scenario": "secs1-conserve", "sync": nSync, "async": nAsync, "unsolicited": nUnsolicited, "timeouts": timeouts,
			"peer_received": received, "peer_sent_acked": acked, "metrics(sent,recv,inflight,err,drop,asyncErr,retry)": m.String()})
	}
}

// c20SECS1Drop: conservation across the END of a generation.  nWait W-bit sends sit in the reply wait (the peer withholds the
// replies) and nAsync fire-and-forget messages have been written when the peer drops the line; the connection re-establishes the
// link, one more transaction runs on the new generation, then the connection is closed.  Every waiter must come back with
// connection-closed, having incremented AND decremented the in-flight gauge exactly once (the teardown branch of the reply wait),
// the sent counter equals what the peer received intact over both generations, nothing is counted as an error.  The recorded
// history is replayed through the transport model.
func c20SECS1Drop(c *Ctx, nWait, nAsync int) {
	e, err := c09NewS1(0, 5*time.Second)
	if err != nil {
		c.Violate("correspondence", "scenario-did-not-start", "secs1 drop: "+err.Error(), nil)
		return
	}
	replay := map[string]any{"family": "secs1-conservation-across-a-generation-end", "waiters": nWait, "async": nAsync}
	stop := make(chan struct{})
	var peerWG sync.WaitGroup
	serve := func(g *c09S1Gen, reply bool) {
		peerWG.Add(1)
		go func() {
			defer peerWG.Done()
			for {
				select {
				case <-stop:
					return
				default:
				}
				b, ok := g.peer.readByte(5 * time.Millisecond)
				if !ok || b != 0x05 {
					continue
				}
				w, good := g.peer.grantAndReceive()
				if !good || len(w) < 13 || !reply {
					continue
				}
				h := w[1:11]
				if h[2]&0x80 == 0 {
					continue
				}
				rh := secs1.VerifHeader{DeviceID: c09S1Dev, RBit: true, Stream: h[2] & 0x7f, Function: h[3] + 1, SystemBytes: [4]byte{h[6], h[7], h[8], h[9]}}
				blk := secs1.VerifBlock{Header: secs1.VerifBuildHeader(rh, 1, true), Body: secs2.NewUintItem(4, uint32(rParseTag(w[11:len(w)-2]))).ToBytes()}
				g.peer.sendWire(secs1.VerifAppendTo(nil, blk))
			}
		}()
	}
	g0 := e.gen(0)
	serve(g0, false)
	n := nWait + nAsync
	hist := make([]s1tCall, n, n+1)
	var wg sync.WaitGroup
	for i := 0; i < n; i++ {
		i := i
		wg.Add(1)
		go func() {
			defer wg.Done()
			var r rCallResult
			item := secs2.NewUintItem(4, uint32(i))
			if i < nWait {
				hist[i] = s1tCall{Idx: i, Kind: "s", Tag: int64(i), StartSt: rStamp()}
				reply, err := e.conn.SendDataMessage(context.Background(), 1, byte(1+2*(i%60)), true, item)
				rClassify(reply, err, &r)
			} else {
				hist[i] = s1tCall{Idx: i, Kind: "a", Tag: int64(i), StartSt: rStamp()}
				rClassify(nil, e.conn.SendDataMessageAsync(context.Background(), 2, 1, false, item), &r)
				if r.Outcome == "nilnil" {
					r.Outcome = "sent"
				}
			}
			hist[i].Outcome, hist[i].EndSt = r.Outcome, rStamp()
		}()
	}
	// every message of the first wave has reached the peer (one block each): the waiters are in their reply wait
	deadline := time.Now().Add(10 * time.Second)
	for time.Now().Before(deadline) && len(c09S1Tags(g0.peer)) < n {
		time.Sleep(time.Millisecond)
	}
	time.Sleep(30 * time.Millisecond)
	if m := rReadMetrics(e.conn); int(m.Inflight) != nWait {
		c.Violate("property", "inflight-differs-from-waiters", fmt.Sprintf("SECS-I: in-flight gauge = %d with %d W-bit sends awaiting their reply", m.Inflight, nWait), replay)
	}
	g0.closed = true
	e.rec.notePeerClose(0)
	_ = g0.conn.Close()
	fin := make(chan struct{})
	go func() { wg.Wait(); close(fin) }()
	select {
	case <-fin:
	case <-time.After(20 * time.Second):
		c.Violate("property", "send-never-returned", "SECS-I: a send pending when its generation ended did not return within 20 s", replay)
		close(stop)
		_ = e.conn.Close()
		return
	}
	for i := 0; i < nWait; i++ {
		c.Stat("secs1-outcome:" + hist[i].Outcome)
		if hist[i].Outcome != "closed" {
			c.Violate("property", "cut-call-outcome", fmt.Sprintf("SECS-I: call %d was awaiting its reply when the peer dropped the line and returned %s", i, hist[i].Outcome), replay)
		}
	}
	// the link comes back; one transaction on the new generation
	deadline = time.Now().Add(10 * time.Second)
	for time.Now().Before(deadline) && (e.numGens() < 2 || e.conn.State() != hsms.SelectedState) {
		time.Sleep(2 * time.Millisecond)
	}
	received := len(c09S1Tags(g0.peer))
	if g1 := e.gen(1); g1 != nil && e.conn.State() == hsms.SelectedState {
		serve(g1, true)
		last := s1tCall{Idx: n, Kind: "s", Tag: int64(n), StartSt: rStamp()}
		var r rCallResult
		ctx, cancel := context.WithTimeout(context.Background(), 4*time.Second)
		reply, err := e.conn.SendDataMessage(ctx, 1, 1, true, secs2.NewUintItem(4, uint32(n)))
		cancel()
		rClassify(reply, err, &r)
		last.Outcome, last.EndSt = r.Outcome, rStamp()
		hist = append(hist, last)
		c.Stat("secs1-outcome:" + r.Outcome)
		if r.Outcome != "reply" {
			c.Violate("property", "cut-call-outcome", fmt.Sprintf("SECS-I: the transaction on the re-established link returned %s (%s)", r.Outcome, r.Err), replay)
		}
		received += len(c09S1Tags(g1.peer))
	} else {
		c.Violate("correspondence", "scenario-incomplete", "secs1 drop: the link was not re-established within 10 s", replay)
	}
	time.Sleep(50 * time.Millisecond)
	m := rReadMetrics(e.conn)
	replay["calls"] = hist
	replay["metrics(sent,recv,inflight,err,drop,asyncErr,retry)"] = m.String()
	if m.Inflight != 0 {
		c.Violate("property", "inflight-not-zero-at-quiescence", fmt.Sprintf("SECS-I: in-flight gauge = %d with no send call running, after %d waiters were released by the end of their generation", m.Inflight, nWait), replay)
	}
	if int(m.Sent) != received {
		c.Violate("property", "sent-counter-differs-from-wire", fmt.Sprintf("SECS-I: DataMsgSendCount = %d but the peer received %d messages intact over both generations", m.Sent, received), replay)
	}
	if m.Err != 0 {
		c.Violate("property", "err-counter-differs-from-outcomes", fmt.Sprintf("SECS-I: DataMsgErrCount = %d although no send timed out or failed (a teardown is not an error)", m.Err), replay)
	}
	if m.Retry != 0 {
		c.Violate("property", "retry-gauge-not-zero-at-quiescence", fmt.Sprintf("SECS-I: reconnecting gauge = %d on the re-established link", m.Retry), replay)
	}
	_ = e.conn.Close()
	close(stop)
	for i := 0; i < e.numGens(); i++ {
		_ = e.gen(i).conn.Close()
	}
	peerWG.Wait()
	m2 := rReadMetrics(e.conn)
	if m2.Inflight != 0 || m2.Retry != 0 {
		c.Violate("property", "inflight-not-zero-at-quiescence", fmt.Sprintf("SECS-I: after Close: in-flight %d, reconnecting %d", m2.Inflight, m2.Retry), replay)
	}
	sv, srep := s1tCheck(c, e.rec, hist, s1tExpect{M: m2, Blocks: e.conn.BlockMetrics(), Checked: true})
	for _, v := range sv {
		c.Violate("correspondence", v[0], v[1], srep)
	}
	c.Count(fmt.Sprintf("secs1-conserve-drop|%d|%d", nWait, nAsync), true)
	c.Stat("scenario:secs1-conserve-across-generation-end")
	if len(c.Res.Samples) < 8 {
		c.Sample(map[string]any{"scenario": "secs1-conserve-across-generation-end", "waiters": nWait, "async": nAsync, "peer_received": received,
			"metrics(sent,recv,inflight,err,drop,asyncErr,retry)": m.String()})
	}
}
