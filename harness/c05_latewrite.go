package main

// C05, clause "each change takes effect exactly when its cause does and is never undone or replayed by the library's
// later internal processing of an earlier event" — on REAL connections, for the event "a transport write failed".
//
// A write failure is reported as an involuntary drop of the generation the write belongs to.  The write can return its
// error arbitrarily late (a writer goroutine descheduled across the teardown; a socket with a full send buffer whose
// error surfaces only when the blocked write is woken): by then the generation it belongs to may be long gone and a
// later one Selected.  The scenarios of c09_slowreader.go (harness-owned socket, lwConn) park one synchronous sender —
// SendDataMessage with / without W-bit, ForwardDataMessage — inside generation N's transport write, let the peer drop N,
// wait until N+1 (or N+2) is up, and only then let the parked write fail:
//
//   idle         N+1 is Selected and idle
//   traffic      N+1 is Selected and carries fresh transactions while the late error arrives
//   select       N+1 is connected and its Select.req is being written (NotSelected) when the late error arrives
//   queued       further senders of N were queued behind the parked one and run through the write path after it
//
// Oracle: from the moment N+1 reached its state, with a healthy peer, State() does not change, NO state notification is
// delivered, no further dial is made, and fresh sends succeed; the senders of N get an error.  (Signature
// later-generation-disturbed-by-stale-sender: a Selected -> NotConnected change needs a cause of THAT connection.)

import (
	"fmt"
	"os"
	"time"
)

// debugging aid: VERIF_C05_ONLY=latewrite runs this family alone (c05.go's init has registered the runner: files
// initialise in name order)
func init() {
	if r, ok := registry["C05"]; ok && os.Getenv("VERIF_C05_ONLY") == "latewrite" {
		r.fn = c05LateWrite
		registry["C05"] = r
	}
}

func c05LateWriteSpecs(c *Ctx) []lwSpec {
	t3, bound, dwell := 4*time.Second, 1500*time.Millisecond, 120*time.Millisecond
	mk := func(name, holdAt, oldKind string, blocked, gens, fresh int, holdSelect bool) lwSpec {
		return lwSpec{Name: name, HoldAt: holdAt, OldKind: oldKind, Blocked: blocked, Gens: gens, Fresh: fresh, FreshKind: "s",
			HoldSelect: holdSelect, T3: t3, Bound: bound, Dwell: dwell, Seed: c.Rng.Uint64()}
	}
	specs := []lwSpec{
		mk("idle-wbit-prefix", "prefix", "s", 0, 1, 0, false),
		mk("idle-forward-body", "body", "fw", 0, 1, 0, false),
		mk("traffic-nowbit-queued", "prefix", "f", 2, 1, 3, false),
		mk("select-in-progress", "prefix", "s", 1, 1, 1, true),
		mk("idle-twice-replaced", "body", "s", 1, 2, 1, false),
	}
	if c.Thorough() {
		for k := 0; k < 16; k++ {
			r := c.Rng
			specs = append(specs, mk(fmt.Sprintf("random-%d", k), []string{"prefix", "body"}[r.IntN(2)], []string{"s", "f", "fw"}[r.IntN(3)],
				r.IntN(5), 1+r.IntN(2), r.IntN(4), r.IntN(4) == 0))
		}
	}
	return specs
}

// c05LateWrite runs the family for C05.
func c05LateWrite(c *Ctx) {
	for _, sp := range c05LateWriteSpecs(c) {
		if lwReport(c, "latewrite/", sp) {
			return // one failing history is enough (each one costs the scaled re-run)
		}
	}
}
