package main

import (
	"context"
	"fmt"
	"net"
	"strings"
	"sync"
	"time"

	"github.com/arloliu/go-secs/v2/hsms"
	"github.com/arloliu/go-secs/v2/hsmsss"
)

func init() {
	register("C05", "action lists over {cC,cS,cL (commit CAS), iS,iR (commit inject), jD,jT,jX (direct injects), rl,rc (run load/commit), dv (notifier)}: "+
		"every list up to a fixed length (exhaustive) plus random lists to length 120, executed on the REAL supervisor with the load/store window "+
		"opened through testHookAfterStateLoad, compared action by action with the Lean model (jD / jT go through the real tagging injectors: "+
		"generation / dwell captured at the action); plus the named regression schedules (former counterexamples F7 / F7b and variants) "+
		"replayed on the real supervisor and property oracles (legal edges, notification chain, quiescent agreement, closed latch, no effect of a "+
		"disconnect of an earlier generation / of a T7 expiry reported before a later Select commit) evaluated on the "+
		"implementation's own trace; distinct = distinct action list; non-trivial = contains at least one run step and one commit or inject", runC05)
}

var supAlphabet = []string{"cC", "cS", "cL", "iS", "iR", "jD", "jT", "jX", "rl", "rc", "dv"}

type supObs struct {
	sts       []int
	L         int
	closed    bool
	dropped   uint64
	queued    int
	deliv     [][2]hsms.ConnState
	buf       [][2]hsms.ConnState
	react     [][2]hsms.ConnState
	panicked  any
	closedAt  int // index of the action after which the close latch was first observed (-1: never)
	lastByRun []bool
	pending   bool // a commit's inject is still outstanding at the end
	badReact  string
	gen       uint64 // the supervisor's generation / dwell counters at the end
	dwell     uint64
	// staleDisc / staleT7: the run goroutine's processing of a disconnect reported in an EARLIER TCP
	// generation / of a T7 expiry reported BEFORE a later Select commit moved State() or fired a reaction.
	// Judged with the harness's own bookkeeping (which generation / how many Select commits at the inject),
	// not with the supervisor's counters.
	staleDisc string
	lostDisc  string // a disconnect of the CURRENT generation that did not take effect when processed
	staleT7   string
	mirrorBad string // harness self-check: its mirror of the events queue disagrees with what was dequeued
}

// qent mirrors one queued event: its kind and what the harness knew when it was injected.
type qent struct {
	kind int
	gen  int // successful TCP-up commits so far
	sel  int // successful Select commits so far
}

// execSup runs an action list on the real supervisor. The run goroutine is played by the harness:
// an `rl` opens a step whose load/store window contains every action up to the matching `rc`.
func execSup(acts []string) (o supObs) {
	o.closedAt = -1
	defer func() {
		if p := recover(); p != nil {
			o.panicked = p
		}
	}()
	v, rt := newDrivenSupervisor()
	var pendStart, pendRecv int = -1, -1
	runIdle := true   // model pc
	var mirror []qent // the events queue, as injected
	ghostGen, ghostSel := 0, 0
	push := func(kind int) { mirror = append(mirror, qent{kind, ghostGen, ghostSel}) }
	pop := func() (e qent) {
		if len(mirror) > 0 {
			e, mirror = mirror[0], mirror[1:]
		}
		return e
	}
	env := func(a string) {
		switch a {
		case "cC":
			if pendStart < 0 && v.CASOnly(hsms.NotConnectedState, hsms.NotSelectedState) {
				pendStart = 0
				ghostGen++
			}
		case "cS":
			if pendRecv < 0 && v.CASOnly(hsms.NotSelectedState, hsms.SelectedState) {
				pendRecv = 1
				ghostSel++
			}
		case "cL":
			if pendRecv < 0 && v.CASOnly(hsms.SelectedState, hsms.NotSelectedState) {
				pendRecv = 2
			}
		case "iS":
			if pendStart >= 0 {
				v.Inject(uint8(pendStart))
				push(pendStart)
				pendStart = -1
			}
		case "iR":
			if pendRecv >= 0 {
				v.Inject(uint8(pendRecv))
				push(pendRecv)
				pendRecv = -1
			}
		case "jD": // TCPDown: an evDisconnect tagged with the current generation
			if rt != nil {
				rt.TCPDown(errC05Drop)
			} else {
				v.InjectDisconnect()
			}
			push(3)
		case "jT": // T7Expired: an evT7Timeout tagged with the current NotSelected dwell
			if rt != nil {
				rt.T7Expired()
			} else {
				v.InjectT7()
			}
			push(5)
		case "jX":
			v.Inject(4)
			push(4)
		case "dv":
			o.deliv = append(o.deliv, v.DrainNotifications(1)...)
		}
	}
	rec := func(byRun bool) {
		o.sts = append(o.sts, int(v.State()))
		o.lastByRun = append(o.lastByRun, byRun)
	}
	// envSeq runs a sequence of non-run actions. A commit's CAS immediately followed by the same
	// thread's inject is executed through the REAL Commit* function (CAS + inject in one call); only a
	// CAS separated from its inject goes through the split hook.
	envSeq := func(seq []string, onRL func()) {
		for k := 0; k < len(seq); k++ {
			a := seq[k]
			if a == "rl" {
				onRL()
				continue
			}
			fused := false
			if k+1 < len(seq) {
				switch {
				case a == "cC" && seq[k+1] == "iS" && pendStart < 0:
					ok := v.State() == hsms.NotConnectedState // single-threaded here: the CAS succeeds iff this holds
					if rt != nil {
						rt.TCPUp(nil)
					} else {
						ok = v.CommitConnected()
					}
					if ok {
						ghostGen++
						push(0)
					}
					rec(false)
					rec(false)
					fused = true
				case a == "cS" && seq[k+1] == "iR" && pendRecv < 0:
					var ok bool
					if rt != nil {
						ok = rt.CommitSelected()
					} else {
						ok = v.CommitSelected()
					}
					if ok {
						ghostSel++
						push(1)
					}
					rec(false)
					rec(false)
					fused = true
				case a == "cL" && seq[k+1] == "iR" && pendRecv < 0:
					ok := v.State() == hsms.SelectedState
					if rt != nil {
						rt.SelectLost()
					} else {
						ok = v.CommitSelectLost()
					}
					if ok {
						push(2)
					}
					rec(false)
					rec(false)
					fused = true
				}
			}
			if fused {
				k++
				continue
			}
			env(a)
			rec(false)
		}
	}
	i := 0
	for i < len(acts) {
		a := acts[i]
		switch a {
		case "rl":
			if !runIdle { // cannot happen: windows are consumed whole below
				rec(true)
				i++
				continue
			}
			// find the matching rc; everything in between runs inside the window
			j := i + 1
			for j < len(acts) && acts[j] != "rc" {
				j++
			}
			window := acts[i+1 : min(j, len(acts))]
			hasRC := j < len(acts)
			if v.Queued() == 0 {
				// model: runLoad is a no-op on an empty queue; the window actions are ordinary actions
				rec(true)
				i++ // the empty-queue load is a no-op; the following actions are handled as ordinary actions
				continue
			}
			// event available: one real step with the window inside
			hookRan := false
			nReact := len(v.Reactions)
			head := pop()
			var stBeforeStore hsms.ConnState
			evDone, _ := v.StepNext(func() {
				hookRan = true
				rec(true)                            // state after the load (unchanged)
				envSeq(window, func() { rec(true) }) // model: runLoad while loaded is a no-op
				stBeforeStore = v.State()
			})
			if int(evDone) != head.kind && o.mirrorBad == "" {
				o.mirrorBad = fmt.Sprintf("the supervisor dequeued event kind %d where the harness's mirror of the queue has %d", evDone, head.kind)
			}
			if hookRan && int(evDone) == head.kind {
				acted := v.State() != stBeforeStore || len(v.Reactions) > nReact
				if evDone == 3 && head.gen < ghostGen && acted && o.staleDisc == "" {
					o.staleDisc = fmt.Sprintf("a disconnect reported in TCP generation %d was processed in generation %d and moved State() %d -> %d (reactions fired: %d)",
						head.gen, ghostGen, stBeforeStore, v.State(), len(v.Reactions)-nReact)
				}
				// the converse: a disconnect reported in the CURRENT generation takes effect when it is processed, whatever
				// commits landed inside the load/store window ("each change takes effect exactly when its cause does");
				// only T7 yields to a commit in the window (after seeded change C05d-1: the disconnect store made a CAS)
				if evDone == 3 && head.gen == ghostGen && stBeforeStore != hsms.NotConnectedState && v.State() != hsms.NotConnectedState && o.lostDisc == "" {
					o.lostDisc = fmt.Sprintf("a disconnect reported in the current TCP generation %d was processed but State() is %d afterwards (it was %d before the store; actions inside the load/store window: %v)",
						head.gen, v.State(), stBeforeStore, window)
				}
				if evDone == 5 && head.sel < ghostSel && acted && o.staleT7 == "" {
					o.staleT7 = fmt.Sprintf("a T7 expiry reported before Select commit #%d was processed after it and moved State() %d -> %d (reactions fired: %d)",
						ghostSel, stBeforeStore, v.State(), len(v.Reactions)-nReact)
				}
			}
			if !hookRan {
				// closed latch: the event was discarded before the load; the window actions run afterwards
				rec(true)
				envSeq(window, func() {
					// further loads while closed keep discarding
					if v.Queued() > 0 {
						v.StepNext(nil)
						pop()
					}
					rec(true)
				})
			}
			// A disconnect / T7 event that fires the entering-NotConnected reaction (teardown + reconnect)
			// must also have published NotConnected: reacting while State() still reads Selected would tear
			// down a live session that the state says is fine ("never disconnected by a T7 armed before it
			// was selected").
			if (evDone == 3 || evDone == 5) && o.badReact == "" {
				for _, rc := range v.Reactions[nReact:] {
					if rc[1] == hsms.NotConnectedState && v.State() != hsms.NotConnectedState {
						o.badReact = fmt.Sprintf("event %d fired the reaction %d>%d (teardown) while State() is %d", evDone, rc[0], rc[1], v.State())
					}
				}
			}
			if hasRC {
				rec(true) // the commit
				i = j + 1
			} else {
				// list ended inside a window: the real step has already completed; the model is left loaded.
				// Such lists are not generated.
				i = len(acts)
			}
			if o.closedAt < 0 && v.Closed() {
				o.closedAt = len(o.sts) - 1
			}
		case "rc":
			rec(true) // commit with idle pc: no-op
			i++
		default:
			// a maximal run of non-run actions
			j := i
			for j < len(acts) && acts[j] != "rl" && acts[j] != "rc" {
				j++
			}
			envSeq(acts[i:j], func() {})
			i = j
		}
	}
	o.pending = pendStart >= 0 || pendRecv >= 0
	o.L = int(v.LastReacted())
	o.closed = v.Closed()
	o.dropped = v.Dropped()
	o.queued = v.Queued()
	o.buf = v.DrainNotifications(-1)
	o.react = v.Reactions
	o.gen, o.dwell = v.Generation(), v.Dwell()
	return o
}

var errC05Drop = fmt.Errorf("c05: scripted drop")

// c05Via is a never-opened real connection behind which every schedule's goroutine-less supervisor is
// installed, so that the injectors and the fused commits go through the connection's own TransportRuntime
// methods (TCPDown / T7Expired / TCPUp / CommitSelected / SelectLost) — their wiring to the supervisor (which
// injector, which tag) is then part of what is compared with the model.
var c05Via struct {
	once sync.Once
	conn hsms.Connection
}

func newDrivenSupervisor() (*hsms.VerifSupervisor, hsms.TransportRuntime) {
	c05Via.once.Do(func() {
		cfg, err := hsmsss.NewConfig("127.0.0.1", 5000, hsmsss.WithActive(),
			hsmsss.WithDialer(func(ctx context.Context, network, addr string) (net.Conn, error) {
				return nil, fmt.Errorf("c05: never dialled")
			}))
		if err != nil {
			return
		}
		if conn, err := hsmsss.New(cfg); err == nil && hsms.VerifLifeProbe(conn) {
			c05Via.conn = conn
		}
	})
	if c05Via.conn != nil {
		if v, rt, ok := hsms.VerifNewSupervisorBehind(c05Via.conn); ok {
			return v, rt
		}
	}
	return hsms.VerifNewSupervisor(), nil
}

func pairsStr(l [][2]hsms.ConnState) string {
	if len(l) == 0 {
		return "-"
	}
	parts := make([]string, len(l))
	for i, p := range l {
		parts[i] = fmt.Sprintf("%d>%d", p[0], p[1])
	}
	return strings.Join(parts, ",")
}

func (o supObs) String() string {
	var sb strings.Builder
	sb.WriteString("sts=")
	for _, s := range o.sts {
		sb.WriteByte(byte('0' + s))
	}
	cl := 0
	if o.closed {
		cl = 1
	}
	fmt.Fprintf(&sb, " L=%d closed=%d dropped=%d q=%d pc=i deliv=%s buf=%s react=%s gen=%d dwell=%d", o.L, cl, o.dropped, o.queued,
		pairsStr(o.deliv), pairsStr(o.buf), pairsStr(o.react), o.gen, o.dwell)
	return sb.String()
}

// wellFormed reports whether every rl is followed by an rc with no rl in between and the list does
// not end inside a window, and whether no window contains a nested rl (keeps harness/model alignment simple).
func wellFormed(acts []string) bool {
	open := false
	for _, a := range acts {
		switch a {
		case "rl":
			if open {
				return false
			}
			open = true
		case "rc":
			if !open {
				return false
			}
			open = false
		}
	}
	return !open
}

func edgeOK(a, b int) bool {
	if a == b {
		return true
	}
	switch [2]int{a, b} {
	case [2]int{0, 1}, [2]int{1, 2}, [2]int{2, 1}, [2]int{1, 0}, [2]int{2, 0}:
		return true
	}
	return false
}

// supOracles evaluates the property's own predicates on the implementation's trace.
func supOracles(c *Ctx, acts []string, o supObs) {
	replay := map[string]any{"actions": strings.Join(acts, " "), "observed": o.String()}
	if o.panicked != nil {
		c.Violate("property", "supervisor-panic", fmt.Sprintf("panic: %v", o.panicked), replay)
		return
	}
	if o.badReact != "" {
		c.Violate("property", "disconnect-reaction-without-state-change", o.badReact, replay)
	}
	// "never undone or replayed by the library's later internal processing of an earlier event": a disconnect
	// of an earlier TCP generation must not touch a later one; "never disconnected by a T7 timeout armed
	// before it was selected" (GoSecs.Props.C05.disconnect_never_disturbs_later_generation /
	// t7_never_disconnects_later_dwell, on every schedule).
	if o.mirrorBad != "" {
		c.Violate("correspondence", "harness-queue-mirror", o.mirrorBad, replay)
	}
	if o.staleDisc != "" {
		c.Violate("property", "f7-stale-disconnect", o.staleDisc, replay)
	}
	if o.staleT7 != "" {
		c.Violate("property", "stale-t7", o.staleT7, replay)
	}
	if o.lostDisc != "" {
		c.Violate("property", "current-disconnect-not-applied", o.lostDisc, replay)
	}
	prev := 0
	for i, s := range o.sts {
		if !edgeOK(prev, s) {
			c.Violate("property", "illegal-edge", fmt.Sprintf("State() moved %d -> %d at action %d", prev, s, i), replay)
			break
		}
		prev = s
	}
	// notification chain over everything handlers would see (delivered then still-buffered), when nothing was dropped
	all := append(append([][2]hsms.ConnState{}, o.deliv...), o.buf...)
	if o.dropped == 0 {
		cur := hsms.NotConnectedState
		for i, p := range all {
			if p[0] != cur || p[0] == p[1] {
				c.Violate("property", "notification-chain-broken", fmt.Sprintf("notification %d is %d>%d after state %d with no drop reported", i, p[0], p[1], cur), replay)
				break
			}
			cur = p[1]
		}
	}
	// quiescence: nothing in flight, not closed => last notification's next == State() == lastReacted
	final := prev
	if o.queued == 0 && !o.closed && !o.pending {
		if o.L != final {
			c.Violate("property", "quiescent-disagreement", fmt.Sprintf("quiescent but lastReacted=%d State()=%d", o.L, final), replay)
		}
		if len(all) > 0 && int(all[len(all)-1][1]) != final {
			c.Violate("property", "quiescent-last-notification", fmt.Sprintf("last notification next=%d but State()=%d", all[len(all)-1][1], final), replay)
		}
		if len(all) == 0 && final != 0 {
			c.Violate("property", "quiescent-last-notification", "no notification but state is not NotConnected", replay)
		}
	}
	// With no disconnect / T7 / close cause in the history, every state change has a synchronous commit as
	// its cause and takes effect at that commit's CAS: the supervisor's later processing of the queued
	// event must never move State() ("never undone or replayed by later internal processing").
	direct := false
	for _, a := range acts {
		if a == "jD" || a == "jT" || a == "jX" {
			direct = true
			break
		}
	}
	if !direct {
		for i := 1; i < len(o.sts); i++ {
			if o.lastByRun[i] && o.sts[i] != o.sts[i-1] {
				c.Violate("property", "commit-event-replayed", fmt.Sprintf("the run goroutine moved State() %d -> %d at action %d although every change in this history was already published by a commit", o.sts[i-1], o.sts[i], i), replay)
				break
			}
		}
	}
	// closed latch: after the latch, actions of the run goroutine never change State()
	if o.closedAt >= 0 {
		for i := o.closedAt + 1; i < len(o.sts); i++ {
			if o.lastByRun[i] && o.sts[i] != o.sts[i-1] {
				c.Violate("property", "closed-latch-broken", fmt.Sprintf("run goroutine changed State() %d -> %d after the close latch (action %d)", o.sts[i-1], o.sts[i], i), replay)
				break
			}
		}
	}
}

func runC05(c *Ctx) {
	var lists [][]string
	// exhaustive enumeration of well-formed lists
	maxLen := c.Pick(5, 6)
	var rec func(cur []string)
	rec = func(cur []string) {
		if len(cur) > 0 && wellFormed(cur) {
			lists = append(lists, append([]string(nil), cur...))
		}
		if len(cur) == maxLen {
			return
		}
		for _, a := range supAlphabet {
			rec(append(cur, a))
		}
	}
	rec(nil)
	nEx := len(lists)
	// random longer lists (weighted towards progress)
	r := c.Rng
	weighted := []string{"cC", "cC", "cS", "cS", "cL", "iS", "iS", "iR", "iR", "jD", "jT", "jX", "rl", "rl", "rl", "dv"}
	for n := 0; n < c.Pick(20000, 300000); n++ {
		ln := 6 + r.IntN(115)
		var l []string
		open := false
		noClose := r.IntN(3) > 0
		noDeliver := r.IntN(4) == 0 // let the notify buffer fill up and coalesce
		for len(l) < ln {
			a := weighted[r.IntN(len(weighted))]
			if a == "jX" && noClose {
				continue
			}
			if a == "dv" && noDeliver {
				continue
			}
			if a == "rl" {
				if open {
					a = "rc"
					open = false
				} else {
					open = true
				}
			}
			l = append(l, a)
		}
		if open {
			l = append(l, "rc")
		}
		lists = append(lists, l)
	}
	// the kernel-checked counterexample schedules (Props/C05) and a few hand-written ones
	named := map[string]string{
		"f4-close-then-commit": "jX rl rc cC",
		"f7-stale-disconnect":  "cC iS cS iR rl rc rl rc jD jD rl rc cC iS cS iR rl rc",
		"stale-t7":             "cC iS rl rc jT cS iR cL iR rl rc",
		// variants of the two former counterexamples (same defect classes, same signatures)
		"stale-disconnect-after-t7": "cC iS rl rc jT jD rl rc cC iS cS iR rl rc",             // T7 took generation N down; N's late disconnect meets N+1
		"stale-disconnect-window":   "cC iS cS iR rl rc rl rc jD jD rl rc rl cC iS cS iR rc", // the reconnect commits inside the stale event's load/store window
		"stale-t7-reconnect":        "cC iS rl rc jD jT rl rc cC iS rl rc rl rc",             // N's T7 expiry meets N+1's fresh dwell
		"stale-t7-window":           "cC iS rl rc jT rl cS iR cL iR rc",                      // select + deselect inside the T7's load/store window
		"current-disconnect":        "cC iS cS iR rl rc rl rc jD rl rc",                      // kept behaviour: the generation's own disconnect applies
		"current-t7":                "cC iS rl rc cS iR cL iR rl rc rl rc jT rl rc",          // kept behaviour: the second dwell's own T7 applies
		"t7-tie":                    "cC iS rl rc jT rl cS rc",
		"deselect-reselect":         "cC iS cS iR rl rc rl rc cL iR cS iR rl rc rl rc",
		"pipelined-deselect":        "cC iS rl rc cS iR cL iR rl rc rl rc",
		"pipelined-deselect-split":  "cC iS rl rc cS iR cL rl iR rc rl rc",
	}
	// (run before the enumerated lists, so that a returning defect is reported with its canonical schedule)
	// Replays of the named schedules on the real supervisor: regressions of repaired findings (reported under
	// the finding's stable signature `what` if the defect returns) and kept-behaviour checks.
	check := func(name string, bad func(o supObs) (bool, string)) { checkAs(c, named, name, name, bad) }
	checkW := func(name, what string, bad func(o supObs) (bool, string)) { checkAs(c, named, name, what, bad) }
	// f4-close-then-commit is no longer a violation by itself: Close() publishes NotConnected after its
	// joins (closeReturn in the model); the window schedule is kept for the correspondence only, and the
	// history mode below checks State() after Close on real connections.
	check("f4-close-then-commit", func(o supObs) (bool, string) { return false, "" })
	// Findings F7 / F7b, repaired (GoSecs.Props.C05.f7_schedule_repaired / stale_t7_schedule_repaired and the
	// every-schedule theorems): the stale event must leave the later generation / dwell alone. A return of
	// the defect is reported under the finding's signature.
	last := func(o supObs) int { return o.sts[len(o.sts)-1] }
	check("f7-stale-disconnect", func(o supObs) (bool, string) {
		n := len(o.sts)
		return o.sts[n-3] == 2 && o.sts[n-1] != 2, "a second disconnect event of the previous generation, processed late, moved the next generation's committed Selected session to NotConnected"
	})
	checkW("stale-disconnect-after-t7", "f7-stale-disconnect", func(o supObs) (bool, string) {
		return last(o) != 2, "a disconnect of a generation that T7 had already taken down, processed late, disconnected the next generation's committed Selected session"
	})
	checkW("stale-disconnect-window", "f7-stale-disconnect", func(o supObs) (bool, string) {
		return last(o) != 2, "a second disconnect of the previous generation disconnected the next generation, which committed inside the event's load/store window"
	})
	check("stale-t7", func(o supObs) (bool, string) {
		return last(o) != 1 && contains(o.sts, 2), "a T7 expiry queued before the session was selected disconnected it after a later deselect"
	})
	checkW("stale-t7-reconnect", "stale-t7", func(o supObs) (bool, string) {
		return last(o) != 1, "a T7 expiry of the previous generation's dwell disconnected the next generation at the start of its own dwell"
	})
	checkW("stale-t7-window", "stale-t7", func(o supObs) (bool, string) {
		return last(o) != 1 && contains(o.sts, 2), "a T7 expiry disconnected a session that was selected and deselected inside the event's load/store window"
	})
	// … and the repair must not remove the behaviour: an event of the CURRENT generation / dwell still applies.
	checkW("current-disconnect", "current-generation-disconnect-ignored", func(o supObs) (bool, string) {
		return last(o) != 0 || len(o.react) == 0 || o.react[len(o.react)-1][1] != hsms.NotConnectedState,
			"the disconnect of the current generation did not take it to NotConnected with the teardown reaction"
	})
	checkW("current-t7", "current-dwell-t7-ignored", func(o supObs) (bool, string) {
		return last(o) != 0 || len(o.react) == 0 || o.react[len(o.react)-1][1] != hsms.NotConnectedState,
			"the T7 expiry of the current NotSelected dwell (after a deselect) did not disconnect"
	})
	check("t7-tie", func(o supObs) (bool, string) {
		return o.sts[len(o.sts)-1] != 2, "T7 store clobbered a Select committed between the supervisor's load and store"
	})
	check("deselect-reselect", func(o supObs) (bool, string) {
		return o.sts[len(o.sts)-1] != 2, "stale select-lost clobbered a re-committed Selected session"
	})
	for _, nm := range []string{"pipelined-deselect", "pipelined-deselect-split"} {
		check(nm, func(o supObs) (bool, string) {
			return o.sts[len(o.sts)-1] != 1, "Select.req+Deselect.req pipelined: the stale select-accepted event re-stored Selected after the Deselect commit (State() ends Selected, the peer was told the deselect succeeded)"
		})
	}
	var lines []string
	for _, l := range lists {
		lines = append(lines, "sup.run "+strings.Join(l, " "))
	}
	var ans []string
	if c.Lean != nil {
		ans = c.Lean.AskAll(lines)
	}
	for i, l := range lists {
		key := strings.Join(l, " ")
		hasRun, hasEnv := false, false
		for _, a := range l {
			if a == "rl" {
				hasRun = true
			} else if a != "rc" && a != "dv" {
				hasEnv = true
			}
		}
		c.Count(key, hasRun && hasEnv)
		if i < nEx {
			c.Stat("exhaustive")
		} else {
			c.Stat("random")
		}
		o := execSup(l)
		if o.dropped > 0 {
			c.Stat("with-drops")
		}
		if o.closed {
			c.Stat("closed")
		}
		supOracles(c, l, o)
		if ans != nil && o.panicked == nil {
			if got := o.String(); got != ans[i] {
				c.Violate("correspondence", "supervisor-differs-from-model", fmt.Sprintf("real supervisor: %s ; model: %s", clip(got, 300), clip(ans[i], 300)),
					map[string]any{"actions": key})
			}
		}
		if i%20011 == 0 {
			c.Sample(map[string]any{"actions": key, "observed": o.String()})
		}
	}
	c.Res.Traces = len(lists)
	c.Res.Exhaustive = false
	c.Note("exhaustive up to length %d (%d well-formed lists), then %d random lists", maxLen, nEx, len(lists)-nEx)
	if _, rt := newDrivenSupervisor(); rt != nil {
		c.Note("injectors and fused commits driven through a real connection's TransportRuntime methods")
	} else {
		c.Note("could not build a connection to drive the supervisor through: injectors called on the supervisor directly")
	}

	if c05Extra != nil {
		c05Extra(c)
	}
}

// checkAs replays one named schedule on the real supervisor, compares it with the model, and reports a bad
// outcome as a property violation with the stable signature `what`.
func checkAs(c *Ctx, named map[string]string, name, what string, bad func(o supObs) (bool, string)) {
	acts := strings.Fields(named[name])
	o := execSup(acts)
	c.Count("named|"+name, true)
	c.Stat("named-schedule")
	if c.Lean != nil {
		if m := c.Lean.Ask("sup.run " + named[name]); m != o.String() {
			c.Violate("correspondence", "supervisor-differs-from-model", "named schedule "+name+": real "+o.String()+" model "+m, map[string]any{"actions": named[name]})
		}
	}
	if isBad, why := bad(o); isBad {
		c.Violate("property", what, why, map[string]any{"schedule": name, "actions": named[name], "observed": o.String(), "theorems": "GoSecs.Props.C05 (stale events / regression schedules)"})
	}
}

func init() {
	c05Extra = func(c *Ctx) {
		c05History(c)
		c05HistoryPassive(c)
		c05T7Dwell(c)
		c05LateWrite(c)
		c09SlowHandlerSuccessor(c)         /* a receive goroutine abandoned by a bounded teardown (blocked inline handler) returns after the successor generation is Selected (c09_slowhandler2.go; seeded C05d-2) */
		c10RacePublish(c, c.Pick(40, 200)) /* the deterministic Close-vs-publish race on every transport: C05's after-Close clause (seeded C05a-2 / C05b-2 / C05c-2) */
	}
}

var c05Extra func(*Ctx)

func contains(l []int, x int) bool {
	for _, v := range l {
		if v == x {
			return true
		}
	}
	return false
}

// ---------- history mode: real connections, Close racing reconnects ----------

func c05History(c *Ctx) {
	iters := c.Pick(250, 3000)
	bad := 0
	for it := 0; it < iters && bad < 3; it++ {
		r := c.Rng
		dropDelay := time.Duration(r.IntN(1500)) * time.Microsecond
		closeDelay := time.Duration(r.IntN(4000)) * time.Microsecond
		lag := time.Duration(r.IntN(1200)) * time.Microsecond
		peer := &minimalPeer{dropAt: func(n int) time.Duration { return dropDelay + time.Microsecond },
			dialLag: func(n int) time.Duration {
				if n == 0 {
					return 0
				}
				return lag // reconnect dials take a while, so Close can land inside one
			}}
		cfg, err := hsmsss.NewConfig("127.0.0.1", 5000, hsmsss.WithActive(), hsmsss.WithDialer(peer.dial),
			hsmsss.WithConnectionOption(hsms.WithReconnectBackoff(200*time.Microsecond, 1.0)),
			hsmsss.WithConnectionOption(hsms.WithT5(time.Millisecond)),
			hsmsss.WithConnectionOption(hsms.WithT6(500*time.Millisecond)),
			hsmsss.WithConnectionOption(hsms.WithT7(500*time.Millisecond)),
			hsmsss.WithConnectionOption(hsms.WithCloseTimeout(2*time.Second)),
			hsmsss.WithConnectionOption(hsms.WithLinktestInterval(time.Hour)))
		if err != nil {
			c.Violate("correspondence", "history-setup", err.Error(), nil)
			return
		}
		conn, err := hsmsss.New(cfg)
		if err != nil {
			c.Violate("correspondence", "history-setup", err.Error(), nil)
			return
		}
		var mu sync.Mutex
		type note struct {
			prev, next hsms.ConnState
			at         time.Time
		}
		var notes []note
		conn.AddConnStateChangeHandler(func(prev, next hsms.ConnState) {
			mu.Lock()
			notes = append(notes, note{prev, next, time.Now()})
			mu.Unlock()
		})
		ctx, cancel := context.WithTimeout(context.Background(), 3*time.Second)
		openErr := conn.Open(ctx, hsms.OpenBackground)
		cancel()
		if openErr != nil {
			c.Stat("history-open-error")
		}
		time.Sleep(closeDelay)
		closeErr := conn.Close()
		closedAt := time.Now()
		_ = closeErr
		st0 := conn.State()
		time.Sleep(2 * time.Millisecond)
		st1 := conn.State()
		peer.closeAll()
		c.Count(fmt.Sprintf("hist|%d|%d|%d", it, dropDelay, closeDelay), true)
		c.Stat("history")
		replay := map[string]any{"mode": "history: active connection, peer accepts Select then drops the link; Close races the reconnect",
			"dial_lag_us": lag.Microseconds(), "drop_delay_us": dropDelay.Microseconds(), "close_delay_us": closeDelay.Microseconds(), "iteration": it, "seed": c.Seed}
		if st0 != hsms.NotConnectedState || st1 != hsms.NotConnectedState {
			bad++
			c.Violate("property", "state-after-close-not-notconnected",
				fmt.Sprintf("State() == %v right after Close returned, %v 2 ms later (iteration %d)", st0, st1, it), replay)
		}
		mu.Lock()
		cur := hsms.NotConnectedState
		for i, n := range notes {
			if n.prev == n.next {
				c.Violate("property", "self-transition-notified", fmt.Sprintf("notification %d is a self-transition %v", i, n.prev), replay)
			}
			if n.prev != cur {
				c.Violate("property", "notification-chain-broken-live", fmt.Sprintf("notification %d has prev %v but the preceding next was %v", i, n.prev, cur), replay)
			}
			if n.at.After(closedAt.Add(time.Millisecond)) {
				c.Violate("property", "notification-after-close", fmt.Sprintf("notification %v>%v delivered %v after Close returned", n.prev, n.next, n.at.Sub(closedAt)), replay)
			}
			cur = n.next
		}
		if len(notes) > 0 && notes[len(notes)-1].next != hsms.NotConnectedState {
			c.Violate("property", "last-notification-after-close", fmt.Sprintf("after Close the last notification's next is %v", notes[len(notes)-1].next), replay)
		}
		mu.Unlock()
	}
}

// c05HistoryPassive: the passive role. A peer connects, selects (pipelining Select.req + data, or
// Select.req + Deselect.req + Select.req in one write), drops, reconnects; Close races the accept loop and the
// receive goroutine's synchronous commits. Oracles: State() after Close, the notification chain, no
// notification after Close, last notification's next state.
func c05HistoryPassive(c *Ctx) {
	iters := c.Pick(60, 600)
	for it := 0; it < iters; it++ {
		r := c.Rng
		ep, err := NewEndpoint(false, []hsms.ConnOption{hsms.WithT7(300 * time.Millisecond), hsms.WithCloseTimeout(2 * time.Second)})
		if err != nil {
			c.Note("c05 passive setup: %v", err)
			return
		}
		if err := ep.Open(); err != nil {
			c.Note("c05 passive open: %v", err)
			ep.Shutdown()
			return
		}
		c.Count(fmt.Sprintf("hist-passive|%d", it), true)
		c.Stat("history-passive")
		closeAfter := time.Duration(r.IntN(6000)) * time.Microsecond
		variant := r.IntN(3)
		stop := make(chan struct{})
		var wg sync.WaitGroup
		wg.Add(1)
		go func() { // the peer: connect, select, misbehave a little, drop, again
			defer wg.Done()
			first := true
			for g := 0; g < 6; g++ {
				select {
				case <-stop:
					return
				default:
				}
				var p *ScriptPeer
				var err error
				if first {
					p, err = ep.Attach(500 * time.Millisecond)
					first = false
				} else {
					var raw net.Conn
					raw, err = ep.DialRaw(200 * time.Millisecond)
					if err == nil {
						p = NewScriptPeer(raw)
					}
				}
				if err != nil {
					time.Sleep(300 * time.Microsecond)
					continue
				}
				sel := mkFrame(0xFFFF, 0, 0, 0, 1, sysOf(uint32(0x100+g)), nil)
				switch variant {
				case 0:
					_ = p.Send(sel)
				case 1: // select + deselect + select in one write
					des := mkFrame(0xFFFF, 0, 0, 0, 3, sysOf(uint32(0x200+g)), nil)
					sel2 := mkFrame(0xFFFF, 0, 0, 0, 1, sysOf(uint32(0x300+g)), nil)
					_ = p.WriteRaw(append(append(sel.Wire(), des.Wire()...), sel2.Wire()...))
				default: // select + data in one write
					data := mkFrame(0xFFFF, 1, 1, 0, 0, sysOf(uint32(0x400+g)), nil)
					_ = p.WriteRaw(append(sel.Wire(), data.Wire()...))
				}
				time.Sleep(time.Duration(r.IntN(800)) * time.Microsecond)
				p.Close()
			}
		}()
		time.Sleep(closeAfter)
		_ = ep.Conn.Close()
		closedAt := time.Now()
		st0 := ep.Conn.State()
		time.Sleep(2 * time.Millisecond)
		st1 := ep.Conn.State()
		close(stop)
		wg.Wait()
		states := ep.States()
		replay := map[string]any{"mode": "history: passive connection; peer connects / selects (variant " + fmt.Sprint(variant) + ") / drops repeatedly; Close races",
			"close_delay_us": closeAfter.Microseconds(), "iteration": it, "seed": c.Seed, "notifications": states}
		if st0 != hsms.NotConnectedState || st1 != hsms.NotConnectedState {
			c.Violate("property", "state-after-close-not-notconnected", fmt.Sprintf("passive: State() == %v right after Close returned, %v 2 ms later", st0, st1), replay)
		}
		cur := "0"
		for i, s := range states {
			pn := strings.Split(s, ">")
			if pn[0] == pn[1] {
				c.Violate("property", "self-transition-notified", fmt.Sprintf("passive: notification %d is %s", i, s), replay)
			}
			if pn[0] != cur {
				c.Violate("property", "notification-chain-broken-live", fmt.Sprintf("passive: notification %d is %s but the preceding next was %s", i, s, cur), replay)
			}
			cur = pn[1]
		}
		if len(states) > 0 && cur != "0" {
			c.Violate("property", "last-notification-after-close", "passive: after Close the last notification's next is "+cur, replay)
		}
		time.Sleep(time.Millisecond)
		if n := len(ep.States()); n != len(states) {
			c.Violate("property", "notification-after-close", fmt.Sprintf("passive: %d notification(s) delivered after Close returned (at %v)", n-len(states), closedAt), replay)
		}
		if ep.ln != nil {
			_ = ep.ln.Close()
		}
	}
}
