package main

import (
	"context"
	"errors"
	"fmt"
	"time"

	"github.com/arloliu/go-secs/v2/hsms"
	"github.com/arloliu/go-secs/v2/hsmsss"
)

// c10RedundantOpen: "Open on an already-open connection fails with the already-open error and NO SIDE
// EFFECTS" — checked at the one moment a side effect would matter: while a reconnect loop is sleeping in its
// backoff. After the redundant Open the connection must still recover exactly as if it had not been called.
// (Added after the independently seeded change C10a-2 — the rejected Open bumped the reconnect fence, so the
// in-flight loop abandoned and the connection stayed NotConnected for ever — was missed.)
func c10RedundantOpen(c *Ctx) {
	for round := 0; round < c.Pick(2, 8); round++ {
		backoff := time.Duration(120+40*round) * time.Millisecond
		whenOpen := backoff / time.Duration(2+round%3) // redundant Open lands inside the backoff sleep
		peer := &minimalPeer{dropAt: func(n int) time.Duration {
			if n == 0 {
				return 15 * time.Millisecond // first generation: select, then drop
			}
			return 0
		}}
		cfg, err := hsmsss.NewConfig("127.0.0.1", 5000, hsmsss.WithActive(), hsmsss.WithDialer(peer.dial),
			hsmsss.WithConnectionOption(hsms.WithReconnectBackoff(backoff, 1.0)),
			hsmsss.WithConnectionOption(hsms.WithT5(2*time.Second)),
			hsmsss.WithConnectionOption(hsms.WithLinktestInterval(time.Hour)))
		if err != nil {
			c.Note("c10 redundant-open setup: %v", err)
			return
		}
		conn, err := hsmsss.New(cfg)
		if err != nil {
			c.Note("c10 redundant-open setup: %v", err)
			return
		}
		c.Count(fmt.Sprintf("redundant-open|%d", round), true)
		c.Stat("redundant-open")
		replay := map[string]any{"scenario": "active connection selected; peer drops the link; during the reconnect backoff the application calls Open again",
			"backoff_ms": backoff.Milliseconds(), "open_after_ms": whenOpen.Milliseconds()}
		ctx, cancel := context.WithTimeout(context.Background(), 5*time.Second)
		if err := conn.Open(ctx, hsms.OpenWaitSelected); err != nil {
			cancel()
			c.Note("c10 redundant-open: first Open failed: %v", err)
			_ = conn.Close()
			continue
		}
		cancel()
		// wait for the involuntary drop
		deadline := time.Now().Add(2 * time.Second)
		for conn.State() == hsms.SelectedState && time.Now().Before(deadline) {
			time.Sleep(time.Millisecond)
		}
		time.Sleep(whenOpen)
		err2 := conn.Open(context.Background(), hsms.OpenBackground)
		if !errors.Is(err2, hsms.ErrAlreadyOpen) {
			c.Violate("property", "double-open-not-refused", fmt.Sprintf("Open on an open connection returned %v, want ErrAlreadyOpen", err2), replay)
		}
		// it must still recover: re-dial after the backoff and reach Selected
		deadline = time.Now().Add(backoff + 3*time.Second)
		for conn.State() != hsms.SelectedState && time.Now().Before(deadline) {
			time.Sleep(2 * time.Millisecond)
		}
		peer.mu.Lock()
		dials := peer.dials
		peer.mu.Unlock()
		if conn.State() != hsms.SelectedState {
			c.Violate("property", "double-open-side-effect", fmt.Sprintf("after a refused redundant Open during the reconnect backoff the connection never recovered: State()=%v, dials=%d", conn.State(), dials), replay)
		}
		_ = conn.Close()
		peer.closeAll()
	}
}
