package main

import (
	"fmt"
	"sort"
	"strings"
	"time"

	"github.com/arloliu/go-secs/v2/hsms"
)

func init() {
	register("C06", "histories of N (1..64) concurrent SendDataMessage calls on a real hsmsss connection (net.Pipe) against a scripted peer that, "+
		"per primary, replies / withholds and permutes / duplicates / drops / rejects with every reason / injects unsolicited secondaries, "+
		"primaries (odd, W, odd+W) and control responses (Select/Deselect/Linktest.rsp) reusing the system bytes / unsupported PType, with "+
		"caller cancels and T3 expiries; each history is linearised and replayed through the Lean router model; "+
		"distinct = distinct (sender kinds, peer behaviours, outcomes) multiset signature; non-trivial = at least 2 senders or a non-reply outcome", runC06)
}

var rRejectReasons = []byte{1, 2, 3, 4, 0, 5, 255}

// genSpec draws one scenario. mix selects the peer-behaviour palette.
func genSpecC06(c *Ctx, n int, mix string, k int) *rSpec {
	r := c.Rng
	sp := &rSpec{Name: fmt.Sprintf("%s-%d-%d", mix, n, k), Seed: r.Uint64(), Handlers: 1 + r.IntN(3), T3: 10 * time.Second}
	var palette []int
	switch mix {
	case "clean":
		palette = []int{pkReply, pkReply, pkReplyHeld, pkReplyHeld, pkDup, pkOtherFn, pkF0}
	case "collide":
		palette = []int{pkReply, pkReplyHeld, pkUnsol, pkPrimOdd, pkPrimW, pkPrimOddW, pkBad, pkDup, pkReject}
	case "ctrl":
		palette = []int{pkReply, pkReplyHeld, pkCtrl, pkCtrl, pkReject, pkPrimOdd}
	case "session": // C20: WithSessionIDValidation(true), own-session and foreign-session frames interleaved
		sp.ValidateSession = true
		palette = []int{pkReply, pkReplyHeld, pkForeign, pkForeign, pkForeignS9F1, pkUnsol, pkPrimOdd, pkDup, pkReject}
	case "timeout":
		sp.T3 = 150 * time.Millisecond
		palette = []int{pkReply, pkReplyHeld, pkDrop, pkDropLate, pkCancel, pkCancelLate, pkReject, pkDup}
	default: // everything except control collisions
		sp.T3 = 150 * time.Millisecond
		palette = []int{pkReply, pkReplyHeld, pkDup, pkDrop, pkReject, pkUnsol, pkPrimOdd, pkPrimW, pkPrimOddW, pkCancel, pkCancelLate,
			pkBad, pkOtherFn, pkF0, pkDropLate}
	}
	for i := 0; i < n; i++ {
		pl := rSenderPlan{Kind: "s", Stream: byte(1 + r.IntN(126)), Fn: byte(1 + 2*r.IntN(100)), Delay: r.IntN(400)}
		if mix != "ctrl" && r.IntN(10) == 0 {
			pl.Kind = []string{"f", "a"}[r.IntN(2)]
			pl.Peer = []int{pkNone, pkEcho}[r.IntN(2)]
		} else {
			pl.Peer = palette[r.IntN(len(palette))]
		}
		switch pl.Peer {
		case pkReject:
			pl.Arg = rRejectReasons[r.IntN(len(rRejectReasons))]
		case pkCtrl:
			pl.Arg = []byte{2, 4, 6}[r.IntN(3)]
		}
		pl.PeerS = pkNames[pl.Peer]
		sp.Plans = append(sp.Plans, pl)
	}
	return sp
}

func runC06(c *Ctx) {
	if c06StressOnly(c) {
		return
	}
	// exhaustive tie of the registry-offer discriminator (2 x 256)
	var lines []string
	for w := 0; w < 2; w++ {
		for fn := 0; fn < 256; fn++ {
			lines = append(lines, fmt.Sprintf("router.secondary %d %d", w, fn))
		}
	}
	var ans []string
	if c.Lean != nil {
		ans = c.Lean.AskAll(lines)
	}
	for w := 0; w < 2; w++ {
		for fn := 0; fn < 256; fn++ {
			got := hsms.VerifIsSecondaryReply(w == 1, byte(fn))
			want := w == 0 && fn%2 == 0
			c.Count(fmt.Sprintf("sec|%d|%d", w, fn), false)
			if got != want {
				c.Violate("property", "primary-offered-to-registry", fmt.Sprintf("isSecondaryReply(W=%d, F=%d) = %v", w, fn, got), map[string]any{"w": w, "fn": fn})
			}
			if ans != nil && ans[w*256+fn] != fmt.Sprint(got) {
				c.Violate("correspondence", "isSecondaryReply-differs", fmt.Sprintf("W=%d F=%d impl %v model %s", w, fn, got, ans[w*256+fn]), map[string]any{"w": w, "fn": fn})
			}
		}
	}
	c.Stat("isSecondaryReply-exhaustive")

	// directed: the F5 history (one W-bit sender, the peer answers with a control response reusing its system bytes)
	for _, st := range []byte{6, 2, 4} {
		sp := &rSpec{Name: fmt.Sprintf("directed-ctrl-collide-%d", st), Seed: uint64(st), Handlers: 1, T3: 2 * time.Second,
			Plans: []rSenderPlan{{Kind: "s", Peer: pkCtrl, PeerS: pkNames[pkCtrl], Arg: st, Stream: 1, Fn: 1}}}
		evalHistoryC06(c, sp)
	}
	// directed mirror of F5: the peer answers the library's own Linktest.req / Select.req with a data secondary reusing
	// its system bytes before the real response
	for k, mirror := range []string{"linktest", "linktest", "select"} {
		sp := &rSpec{Name: fmt.Sprintf("directed-mirror-%s-%d", mirror, k), Seed: uint64(100 + k), Handlers: 1 + k, T3: 2 * time.Second, Mirror: mirror,
			Plans: []rSenderPlan{{Kind: "s", Peer: pkReply, PeerS: "reply", Stream: 1, Fn: 1}, {Kind: "s", Peer: pkReplyHeld, PeerS: "reply-held", Stream: 2, Fn: 3, Delay: 100}}}
		if mirror == "linktest" {
			sp.Linktest = 15 * time.Millisecond
		}
		evalHistoryC06(c, sp)
	}
	// directed: the peer rejects with every kind of reason code (the four defined ones, 0, reserved 5..127, vendor
	// 128..255); the caller must get a RejectError carrying exactly that code, long before T3 (after seeded C06b-2)
	for k, reason := range []byte{1, 2, 3, 4, 0, 5, 6, 64, 127, 128, 200, 255} {
		sp := &rSpec{Name: fmt.Sprintf("directed-reject-reason-%d", reason), Seed: uint64(300 + k), Handlers: 1, T3: 1500 * time.Millisecond,
			Plans: []rSenderPlan{{Kind: "s", Peer: pkReject, PeerS: pkNames[pkReject], Arg: reason, Stream: 1, Fn: 1},
				{Kind: "s", Peer: pkReply, PeerS: "reply", Stream: 2, Fn: 3, Delay: 20}}}
		evalHistoryC06(c, sp)
	}
	// slow writes: T3 counts from the moment the primary was written, not from the call / the registration
	c06SlowWrites(c)
	// volume: duplicated replies and reply-vs-cancel / reply-vs-T3 ties, unique token per transaction (c06_stress.go)
	c06Stress(c)
	c06Deadline(c) // caller context with a deadline shorter than T3 (c06_deadline.go)
	// directed: one sender per peer behaviour
	for pk := 0; pk < pkNone; pk++ {
		if pk == pkCtrl {
			continue
		}
		sp := &rSpec{Name: "directed-" + pkNames[pk], Seed: uint64(pk), Handlers: 2, T3: 120 * time.Millisecond,
			Plans: []rSenderPlan{{Kind: "s", Peer: pk, PeerS: pkNames[pk], Arg: 3, Stream: 5, Fn: 3}, {Kind: "s", Peer: pkReply, PeerS: "reply", Stream: 6, Fn: 11, Delay: 50}}}
		evalHistoryC06(c, sp)
	}
	sizes := []int{1, 2, 3, 4, 8, 16, 32, 64}
	mixes := []string{"clean", "collide", "ctrl", "timeout", "all"}
	reps := c.Pick(5, 16)
	for k := 0; k < reps; k++ {
		for _, n := range sizes {
			for _, mix := range mixes {
				if routerStop(c) {
					return
				}
				evalHistoryC06(c, genSpecC06(c, n, mix, k))
			}
		}
	}
}

// evalHistoryC06 runs one scenario, applies the implementation-side oracles and the model replay.
func evalHistoryC06(c *Ctx, sp *rSpec) {
	h, notes, fail := runScenario(sp)
	if fail != "" {
		c.Violate("correspondence", "scenario-did-not-start", fail, map[string]any{"spec": sp})
		return
	}
	replay := map[string]any{"spec": sp, "calls": h.Calls, "peer_out": h.Out, "peer_in": h.In, "handled": h.Handled, "snaps": h.Snaps}
	for _, n := range notes {
		switch {
		case strings.HasPrefix(n, "HANG"):
			c.Violate("property", "send-never-returned", n, replay)
		case strings.HasPrefix(n, "REGISTRY-NOT-EMPTY"):
			c.Violate("property", "registry-entry-leaked", n, replay)
		case strings.HasPrefix(n, "REGISTRY-TRANSIENT"):
			c.Stat("registry-transient-entry")
		default:
			c.Violate("correspondence", "scenario-incomplete", n, replay)
		}
	}
	sig := oracleC06(c, sp, h, replay)
	c.Count(sig, len(sp.Plans) >= 2 || strings.Contains(sig, "!"))
	c.Stat(fmt.Sprintf("senders:%d", len(sp.Plans)))
	if len(c.Res.Samples) < 8 && (c.Res.Evaluations%37 == 5 || strings.HasPrefix(sp.Name, "directed-ctrl")) {
		outs := map[string]int{}
		for _, cl := range h.Calls {
			outs[cl.Outcome]++
		}
		c.Sample(map[string]any{"scenario": sp.Name, "senders": len(sp.Plans), "handlers": sp.Handlers, "outcomes": outs,
			"peer_frames": len(flatOut(h)), "handler_deliveries": len(h.Handled)})
	}
	modelCheck(c, "C06", sp, h, replay)
}

// routerStop: a violation other than the known F5 signature was recorded; stop generating further histories
// (one representative per signature is kept anyway, and a broken build can make every history slow).
func routerStop(c *Ctx) bool {
	c.mu.Lock()
	defer c.mu.Unlock()
	n := 0
	for _, v := range c.Res.Violations {
		if v.What == "nil-reply-nil-error-on-colliding-control-response" {
			continue
		}
		if v.Kind == "property" {
			return true // a failing history for the property itself was found and recorded
		}
		n++
	}
	return n >= 3
}

func flatOut(h *rHistory) []rFrame {
	var fs []rFrame
	for _, o := range h.Out {
		fs = append(fs, o...)
	}
	sort.Slice(fs, func(a, b int) bool { return fs[a].Fid < fs[b].Fid })
	return fs
}

// oracleC06 evaluates the property directly on the recorded history (no model involved); returns the case signature.
func oracleC06(c *Ctx, sp *rSpec, h *rHistory, replay map[string]any) string {
	// wire primaries: sender -> (gen, sb, read time)
	type prim struct {
		gen int
		sb  uint32
		f   rFrame
	}
	prims := map[int]prim{}
	sbSeen := map[uint32]int{}
	for g, in := range h.In {
		for _, f := range in {
			if f.IsData() && f.Tag >= 0 && int(f.Tag) < len(sp.Plans) {
				if _, dup := prims[int(f.Tag)]; dup {
					c.Violate("property", "primary-written-twice", fmt.Sprintf("sender %d's primary reached the peer twice", f.Tag), replay)
				}
				prims[int(f.Tag)] = prim{g, f.SB, f}
				sbSeen[f.SB]++
			}
			if f.PType == 0 && f.SType == 1 {
				sbSeen[f.SB]++
			}
		}
	}
	for sb, n := range sbSeen {
		if n > 1 {
			c.Violate("property", "system-bytes-reused", fmt.Sprintf("system bytes %d used by %d concurrently open library transactions", sb, n), replay)
		}
	}
	out := flatOut(h)
	byFid := map[int]rFrame{}
	for _, f := range out {
		byFid[f.Fid] = f
	}
	returned := map[int]int{} // fid -> call
	var parts []string
	for i, cl := range h.Calls {
		pl := sp.Plans[i]
		c.Stat("outcome:" + cl.Outcome)
		c.Stat("peer:" + pl.PeerS)
		parts = append(parts, pl.Kind+pl.PeerS+">"+cl.Outcome)
		p, onWire := prims[i]
		if pl.Kind != "s" {
			if cl.Outcome != "sent" && cl.Outcome != "notselected" && cl.Outcome != "closed" && cl.Outcome != "writeerr" && cl.Outcome != "ctx" {
				c.Violate("property", "fire-and-forget-outcome", fmt.Sprintf("call %d (%s) returned %s", i, pl.Kind, cl.Outcome), replay)
			}
			continue
		}
		switch cl.Outcome {
		case "reply":
			f, ok := byFid[int(cl.ReplyTag)]
			switch {
			case !onWire:
				c.Violate("property", "reply-without-primary", fmt.Sprintf("call %d returned a reply but its primary never reached the peer", i), replay)
			case cl.ReplySB != p.sb:
				c.Violate("property", "reply-of-another-transaction", fmt.Sprintf("call %d (system bytes %d) returned a message with system bytes %d", i, p.sb, cl.ReplySB), replay)
			case cl.ReplyW || cl.ReplyFn%2 != 0:
				c.Violate("property", "peer-primary-returned-as-reply", fmt.Sprintf("call %d returned S?F%d W=%v as its reply", i, cl.ReplyFn, cl.ReplyW), replay)
			case !ok || f.SB != cl.ReplySB || !f.IsData():
				c.Violate("property", "reply-not-sent-by-peer", fmt.Sprintf("call %d returned frame tag %d which the peer did not send with these system bytes", i, cl.ReplyTag), replay)
			case f.Stamp < p.f.Stamp:
				c.Violate("property", "reply-predates-primary", fmt.Sprintf("call %d returned frame %d sent before its primary was written", i, f.Fid), replay)
			}
			if j, dup := returned[int(cl.ReplyTag)]; dup {
				c.Violate("property", "frame-delivered-twice", fmt.Sprintf("peer frame %d was returned to calls %d and %d", cl.ReplyTag, j, i), replay)
			}
			returned[int(cl.ReplyTag)] = i
		case "nilnil":
			what := "nil-reply-nil-error"
			detail := fmt.Sprintf("SendDataMessage (W-bit, call %d) returned (nil, nil)", i)
			if onWire {
				for _, f := range out {
					if f.SB == p.sb && (f.SType == 2 || f.SType == 4 || f.SType == 6) && f.PType == 0 {
						what = "nil-reply-nil-error-on-colliding-control-response"
						detail += fmt.Sprintf(": the peer sent a control response (SType %d) reusing its system bytes %d, which was routed to the data sender", f.SType, p.sb)
						break
					}
				}
			}
			c.Violate("property", what, detail, replay)
		case "reject":
			found := false
			if onWire {
				for _, f := range out {
					if f.SType == 7 && f.PType == 0 && f.SB == p.sb && f.B3 == cl.Reason && f.Stamp > p.f.Stamp {
						found = true
					}
				}
			}
			if !found {
				c.Violate("property", "reject-error-not-from-peer", fmt.Sprintf("call %d returned RejectError reason %d but the peer sent no such Reject for it", i, cl.Reason), replay)
			}
		case "timeout":
			if !onWire {
				c.Violate("property", "t3-without-primary", fmt.Sprintf("call %d timed out but its primary never reached the peer", i), replay)
			} else if el := cl.EndT.Sub(cl.StartT); el < sp.T3*9/10 {
				c.Violate("property", "t3-early", fmt.Sprintf("call %d returned the T3 error after %v (T3 = %v)", i, el, sp.T3), replay)
			}
			// completeness: the T3 error is only for a transaction the peer did NOT answer. An answer (its own
			// secondary, or a Reject.req with ANY reason code — reserved and vendor codes included) that the library
			// had finished reading well before the call gave up must have completed the call instead
			// (after seeded change C06b-2: Reject.req with a reserved reason silently discarded).
			if onWire {
				margin := sp.T3 / 3
				if margin < 150*time.Millisecond {
					margin = 150 * time.Millisecond
				}
				for _, f := range out {
					if f.SB != p.sb || f.PType != 0 || !f.WriteOK || f.EndT == 0 || f.Stamp <= p.f.Stamp || f.Gen != p.f.Gen {
						continue
					}
					isReject := f.SType == 7
					isOwnSecondary := f.IsData() && !f.W() && f.Stream() == p.f.Stream() && f.Fn() == p.f.Fn()+1 && f.Session == p.f.Session
					if (isReject || isOwnSecondary) && f.EndT < cl.EndT.UnixNano()-int64(margin) {
						what := "timeout-despite-reply"
						if isReject {
							what = "timeout-despite-reject"
						}
						c.Violate("property", what, fmt.Sprintf("call %d (system bytes %d) returned the T3 error although the peer's answer (SType %d, byte3 %d) had been read by the library %v earlier",
							i, p.sb, f.SType, f.B3, time.Duration(cl.EndT.UnixNano()-f.EndT)), replay)
						break
					}
				}
			}
		case "ctx":
			if !cl.Cancel {
				c.Violate("property", "ctx-error-without-cancel", fmt.Sprintf("call %d returned a context error but nobody cancelled its context", i), replay)
			}
		case "closed", "writeerr", "notselected":
			if sp.DropAfter == 0 && !sp.Deselect {
				c.Violate("property", "spurious-"+cl.Outcome, fmt.Sprintf("call %d returned %s (%s) on a healthy Selected link", i, cl.Outcome, cl.Err), replay)
			}
		default:
			c.Violate("property", "undocumented-outcome", fmt.Sprintf("call %d returned %s (%s)", i, cl.Outcome, cl.Err), replay)
		}
	}
	// single recipient: per peer data frame, handlers exactly once each in arrival order, or one caller, or (registry-offered, matching an
	// open/answered transaction) discarded
	perH := make([][]rHDeliv, sp.Handlers)
	for _, d := range h.Handled {
		if d.Handler < sp.Handlers {
			perH[d.Handler] = append(perH[d.Handler], d)
		}
	}
	for hi := 1; hi < sp.Handlers; hi++ {
		if len(perH[hi]) != len(perH[0]) {
			c.Violate("property", "handlers-disagree", fmt.Sprintf("handler 0 got %d messages, handler %d got %d", len(perH[0]), hi, len(perH[hi])), replay)
			continue
		}
		for k := range perH[hi] {
			if perH[hi][k].Tag != perH[0][k].Tag {
				c.Violate("property", "handlers-disagree", fmt.Sprintf("delivery %d differs between handler 0 and %d", k, hi), replay)
				break
			}
		}
	}
	hcount := map[int]int{}
	last := int64(-1)
	for _, d := range perH[0] {
		hcount[int(d.Tag)]++
		if d.Tag <= last {
			c.Violate("property", "handler-order", fmt.Sprintf("handler saw peer frame %d after %d (arrival order is the peer's send order)", d.Tag, last), replay)
		}
		last = d.Tag
	}
	sbOfCall := map[uint32]bool{}
	for _, p := range prims {
		sbOfCall[p.sb] = true
	}
	ctrlSB := map[uint32]byte{} // system bytes of the library's own control requests
	for _, in := range h.In {
		for _, f := range in {
			if f.PType == 0 && (f.SType == 1 || f.SType == 5) {
				ctrlSB[f.SB] = f.SType
			}
		}
	}
	selectedGen := map[int]bool{}
	for _, f := range out {
		if f.PType == 0 && f.SType == 2 && f.B3 == 0 && f.WriteOK {
			selectedGen[f.Gen] = true // frames after this one (send order = fid order) are received while Selected
			continue
		}
		if !f.IsData() || !f.WriteOK {
			continue
		}
		if !selectedGen[f.Gen] {
			c.Stat("data-frame-before-select")
			if hcount[f.Fid] > 0 {
				c.Violate("property", "data-delivered-while-not-selected", fmt.Sprintf("peer data frame %d was delivered although the link was not Selected yet", f.Fid), replay)
			}
			continue
		}
		if st, isCtrl := ctrlSB[f.SB]; isCtrl && f.offered() && hcount[f.Fid] == 0 {
			c.Violate("property", "data-secondary-completed-control-transaction", fmt.Sprintf("peer data secondary %d reuses the system bytes %d of the library's own control request (SType %d) and never reached the data handlers: it was consumed by the control transaction", f.Fid, f.SB, st), replay)
			continue
		}
		_, toCall := returned[f.Fid]
		hc := hcount[f.Fid]
		switch {
		case toCall && hc > 0:
			c.Violate("property", "frame-delivered-twice", fmt.Sprintf("peer frame %d went to a caller and to the handlers", f.Fid), replay)
		case hc > 1:
			c.Violate("property", "frame-delivered-twice", fmt.Sprintf("peer frame %d was handed to the handlers %d times", f.Fid, hc), replay)
		case !toCall && hc == 0:
			mayDiscard := f.offered() && sbOfCall[f.SB]
			if !mayDiscard && h.Closes[f.Gen] == 0 {
				c.Violate("property", "frame-lost", fmt.Sprintf("peer data frame %d (S%dF%d W=%v sb=%d) reached no recipient", f.Fid, f.Stream(), f.Fn(), f.W(), f.SB), replay)
			}
		case hc == 1 && !f.offered():
			c.Stat("primary-to-handlers")
		}
	}
	sort.Strings(parts)
	return strings.Join(parts, ",")
}

// modelCheck linearises the history, replays it through the Lean model and compares every observable.
func modelCheck(c *Ctx, prop string, sp *rSpec, h *rHistory, replay map[string]any) {
	if c.Lean == nil {
		return
	}
	toks, expectO, l := linearize(h)
	if l.err != "" {
		c.Violate("correspondence", "history-not-linearizable", "the recorded history has no placement in the model's step relation: "+l.err, replay)
		return
	}
	ans := c.Lean.Ask("router.replay " + strings.Join(toks, " "))
	status, f := parseReplayAnswer(ans)
	replay["model_actions"] = strings.Join(toks, " ")
	replay["model_answer"] = clip(ans, 6000)
	if status != "ok" {
		at := ""
		var k int
		if _, err := fmt.Sscanf(status, "disabled@%d", &k); err == nil && k < len(toks) {
			at = " (action " + toks[k] + ")"
		}
		c.Violate("correspondence", "history-rejected-by-model", "the model does not accept the linearised history: "+status+at, replay)
		return
	}
	c.Res.Traces++
	// outcomes
	gotO := map[int]string{}
	if f["O"] != "-" {
		for _, p := range strings.Split(f["O"], ",") {
			if k, v, ok := strings.Cut(p, ">"); ok {
				var id int
				fmt.Sscan(k, &id)
				gotO[id] = v
			}
		}
	}
	for i, want := range expectO {
		got := gotO[i]
		if want == "nilnil:*" && strings.HasPrefix(got, "nilnil:") {
			continue
		}
		if got != want {
			c.Violate("correspondence", "outcome-differs", fmt.Sprintf("call %d: implementation %s, model %s", i, want, got), replay)
		}
	}
	// wire order of the senders' frames per generation
	var wantW []string
	type wf struct {
		stamp int64
		s     string
	}
	var ws []wf
	for g, in := range h.In {
		for _, fr := range in {
			if i, ok := l.bySB[fr.SB]; ok && ((fr.IsData() && int(fr.Tag) == i) || (fr.IsData() && l.snd[i].lib) || ((fr.SType == 1 || fr.SType == 5) && fr.PType == 0)) {
				ws = append(ws, wf{fr.Stamp, fmt.Sprintf("%d>%d>%d", l.epOf[g], i, fr.SB)})
			}
		}
	}
	sort.Slice(ws, func(a, b int) bool { return ws[a].stamp < ws[b].stamp })
	for _, w := range ws {
		wantW = append(wantW, w.s)
	}
	if got := f["W"]; got != join0(wantW) {
		c.Violate("correspondence", "wire-differs", fmt.Sprintf("frames the peer received %s, model wire %s", clip(join0(wantW), 300), clip(got, 300)), replay)
	}
	// handler deliveries
	var wantH []string
	for _, d := range h.Handled {
		if d.Handler == 0 {
			wantH = append(wantH, fmt.Sprintf("%d>%d", d.Tag, sp.Handlers))
		}
	}
	if got := f["H"]; got != join0(wantH) {
		c.Violate("correspondence", "handler-deliveries-differ", fmt.Sprintf("implementation %s, model %s", clip(join0(wantH), 300), clip(got, 300)), replay)
	}
	// counters at every snapshot
	var wantS []string
	for _, s := range h.Snaps {
		wantS = append(wantS, s.M.String())
	}
	if got := f["S"]; got != strings.Join(wantS, ";") {
		c.Violate("correspondence", "counters-differ", fmt.Sprintf("implementation snapshots %s, model %s", strings.Join(wantS, ";"), got), replay)
	}
	if f["REG"] != "0" {
		c.Violate("correspondence", "model-registry-not-empty", "model registry has "+f["REG"]+" entries at the end of the history", replay)
	}
	// model-side property predicates on the accepted history
	if p := f["P"]; p != "-" && p != "" {
		for _, name := range strings.Split(p, ",") {
			nil2 := false
			for _, cl := range h.Calls {
				if cl.Outcome == "nilnil" && cl.Kind == "s" {
					nil2 = true
				}
			}
			if name == "outcome_exhaustive" && nil2 {
				continue // the implementation-side oracle reported the same history (nil-reply-nil-error…)
			}
			c.Violate("correspondence", "model-predicate-"+name, "the model run proposed for this history violates the model-side predicate "+name+
				" (theorem of that name) although the implementation-side oracle found nothing: model and implementation disagree on this history", replay)
		}
	}
}

func join0(xs []string) string {
	if len(xs) == 0 {
		return "-"
	}
	return strings.Join(xs, ",")
}
