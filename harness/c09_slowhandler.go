package main

// C09, clause "when a generation ends, every send still waiting on it completes PROMPTLY with the connection-closed
// error": scenarios where the generation's teardown JOIN is slow because an application data handler (run inline on the
// receive goroutine) is still running when the generation ends.  A waiter must be released when the teardown starts
// (generation context cancelled), not when its bounded join has finished.

import (
	"context"
	"fmt"
	"sync"
	"time"

	"github.com/arloliu/go-secs/v2/hsms"
	"github.com/arloliu/go-secs/v2/secs2"
)

type c09SlowHandlerSpec struct {
	Name    string        `json:"name"`
	Trigger string        `json:"trigger"` // close | peerdrop
	Handler time.Duration `json:"handler"` // how long the application handler blocks
	Waiters int           `json:"waiters"`
}

func c09RunSlowHandler(c *Ctx, sp c09SlowHandlerSpec) {
	peer := newRPeer()
	conn, err := rNewConn(peer, rConnOpts{T3: 20 * time.Second}) // close timeout 3 s > handler duration
	if err != nil {
		c.Violate("correspondence", "scenario-did-not-start", err.Error(), map[string]any{"spec": sp})
		return
	}
	entered := make(chan struct{}, 1)
	conn.AddDataMessageHandler(func(msg *hsms.DataMessage, _ hsms.SECS2Endpoint) {
		if msg.Stream() == 77 {
			select {
			case entered <- struct{}{}:
			default:
			}
			time.Sleep(sp.Handler) // a slow MES call: ignores the connection's lifecycle on purpose
		}
	})
	var mu sync.Mutex
	seen := map[int]bool{}
	peer.onFrame = func(_ *rGen, f rFrame) {
		if f.IsData() && f.Tag >= 0 {
			mu.Lock()
			seen[int(f.Tag)] = true
			mu.Unlock()
		}
	}
	octx, ocancel := context.WithTimeout(context.Background(), 10*time.Second)
	err = conn.Open(octx, hsms.OpenWaitSelected)
	ocancel()
	if err != nil {
		_ = conn.Close()
		peer.closeAll()
		c.Violate("correspondence", "scenario-did-not-start", "open: "+err.Error(), map[string]any{"spec": sp})
		return
	}
	g := peer.last()
	type res struct {
		out string
		end time.Time
	}
	results := make([]res, sp.Waiters)
	var wg sync.WaitGroup
	for i := 0; i < sp.Waiters; i++ {
		i := i
		wg.Add(1)
		go func() {
			defer wg.Done()
			var r rCallResult
			reply, err := conn.SendDataMessage(context.Background(), 1, byte(1+2*i), true, secs2.NewUintItem(4, uint32(i)))
			results[i].end = time.Now()
			rClassify(reply, err, &r)
			results[i].out = r.Outcome
		}()
	}
	waitFor := func(cond func() bool, d time.Duration) bool {
		deadline := time.Now().Add(d)
		for time.Now().Before(deadline) {
			if cond() {
				return true
			}
			time.Sleep(200 * time.Microsecond)
		}
		return cond()
	}
	allSeen := func() bool { mu.Lock(); defer mu.Unlock(); return len(seen) == sp.Waiters }
	if !waitFor(allSeen, 5*time.Second) {
		c.Violate("correspondence", "scenario-incomplete", "the waiters' primaries did not reach the peer", map[string]any{"spec": sp})
	}
	// the peer withholds every reply and sends the primary whose handler blocks
	peer.sendData(g, 77, 1, false, 0x7a000001, 0xFFFF)
	select {
	case <-entered:
	case <-time.After(5 * time.Second):
		c.Violate("correspondence", "scenario-incomplete", "the slow handler was never entered", map[string]any{"spec": sp})
	}
	var t0 time.Time
	closeDone := make(chan struct{})
	switch sp.Trigger {
	case "close":
		t0 = time.Now()
		go func() { _ = conn.Close(); close(closeDone) }()
	default: // the peer drops the link; the drop is detected by the next write (the receive goroutine is busy in the handler)
		g.closeGen()
		var r rCallResult
		reply, err := conn.SendDataMessage(context.Background(), 2, 1, false, secs2.NewUintItem(4, 999))
		rClassify(reply, err, &r)
		t0 = time.Now()
		c.Stat("slow-handler-detecting-send:" + r.Outcome)
	}
	fin := make(chan struct{})
	go func() { wg.Wait(); close(fin) }()
	hung := false
	select {
	case <-fin:
	case <-time.After(15 * time.Second):
		hung = true
	}
	replay := map[string]any{"spec": sp}
	if hung {
		c.Violate("property", "send-never-returned", "a waiter of a generation that ended while an application handler was running did not return within 15 s", replay)
	} else {
		var lat []string
		for i, r := range results {
			l := r.end.Sub(t0)
			lat = append(lat, fmt.Sprintf("%d:%s after %v", i, r.out, l.Round(time.Millisecond)))
			c.Stat("slow-handler-waiter:" + r.out)
			if r.out != "closed" {
				c.Violate("property", "cut-call-outcome", fmt.Sprintf("waiter %d of the ended generation returned %s instead of connection-closed", i, r.out), replay)
			}
			if l > sp.Handler/2 {
				c.Violate("property", "waiter-not-released-promptly", fmt.Sprintf("waiter %d returned %v after the generation ended (%s) while an application handler blocked the receive goroutine for %v: it was released by the end of the teardown join, not by its start",
					i, l.Round(time.Millisecond), sp.Trigger, sp.Handler), replay)
			}
		}
		replay["waiters"] = lat
		if len(c.Res.Samples) < 8 {
			c.Sample(map[string]any{"scenario": "slow-handler/" + sp.Name, "handler": sp.Handler.String(), "waiters": lat})
		}
	}
	c.Count(fmt.Sprintf("slowhandler|%s|%d", sp.Trigger, sp.Waiters), true)
	if sp.Trigger != "close" {
		go func() { _ = conn.Close(); close(closeDone) }()
	}
	select {
	case <-closeDone:
	case <-time.After(10 * time.Second):
		c.Violate("property", "close-never-returned", "Close did not return within 10 s (close timeout 3 s)", replay)
	}
	peer.closeAll()
}

func c09SlowHandlers(c *Ctx) {
	specs := []c09SlowHandlerSpec{
		{Name: "close-1", Trigger: "close", Handler: 800 * time.Millisecond, Waiters: 1},
		{Name: "peerdrop-2", Trigger: "peerdrop", Handler: 800 * time.Millisecond, Waiters: 2},
	}
	if c.Thorough() {
		specs = append(specs,
			c09SlowHandlerSpec{Name: "close-8", Trigger: "close", Handler: 1200 * time.Millisecond, Waiters: 8},
			c09SlowHandlerSpec{Name: "peerdrop-8", Trigger: "peerdrop", Handler: 1200 * time.Millisecond, Waiters: 8})
	}
	for _, sp := range specs {
		if routerStop(c) {
			return
		}
		c09RunSlowHandler(c, sp)
	}
}
