package main

// C20 over the SECS-I transport UNDER LINE FAULTS: two REAL secs1 connections (equipment = passive master, host = active
// slave) joined by a protocol-aware middlebox (`c20Box`, after the ideas of c18_e2e.go's e2eBox) that injects, per block
// transfer attempt,
//
//	n  nothing
//	a  the receiver's ACK is lost            -> the sender's T2 expires, it retransmits the block (E4 RTY)
//	k  one checksum character is corrupted   -> the receiver NAKs (after T1 of silence), the sender retransmits
//	d  the block is duplicated on the line   -> after the receiver's ACK the box replays ENQ/block itself once more
//	                                            (the sender never retransmitted), then lets the first ACK through
//
// The conservation oracle is evaluated at the quiescent point against counts kept by the harness (successful sends,
// handler deliveries) and by the box (intact arrivals per direction, NAKs seen):
//
//	sender.DataMsgSendCount    = messages whose send call returned nil (primaries + replies): one Write each
//	receiver.DataMsgRecvCount  = the same number — a retransmitted / duplicated block is never a second message
//	receiver handler deliveries = the peer's primaries, each exactly once, intact, in order; every W-bit send got ITS reply
//	receiver.BlockDupDropCount = intact arrivals whose 10-byte header equals that of the last accepted block (E4 §9.4.2)
//	receiver.BlockNAKSentCount = NAK characters the box saw from that receiver
//	in-flight gauge 0, error counter 0, reconnecting gauge 0 (also after Close)
//
// The fault budget per block (at most two retry-consuming faults in a row, retry limit 3) guarantees every send
// succeeds; a disturbed run (a send failed: timers starved on a loaded machine) is repeated with scaled timers.

import (
	"bytes"
	"context"
	"encoding/hex"
	"fmt"
	"net"
	"sync"
	"time"

	"github.com/arloliu/go-secs/v2/hsms"
	"github.com/arloliu/go-secs/v2/secs1"
	"github.com/arloliu/go-secs/v2/secs2"
)

type c20BoxEv struct {
	fromE bool
	b     byte
	eof   bool
}

type c20BoxLog struct {
	FromE  bool   `json:"from_equipment"`
	Fault  string `json:"fault"`
	Header string `json:"header"`
	Intact bool   `json:"intact"` // the block reached the receiver unaltered
	Answer byte   `json:"answer"` // the receiver's answer character (0 = none seen)
	Replay bool   `json:"replay"` // the box's own duplicate of the previous block
	hdr    [10]byte
}

type c20Box struct {
	toE, toH net.Conn
	in       chan c20BoxEv
	mu       sync.Mutex
	faults   map[bool][]byte // direction (fromE) -> fault letters, one per block transfer attempt
	log      []c20BoxLog
	enqs     map[bool]int // ENQ characters seen from each side
}

func (x *c20Box) pump(c net.Conn, fromE bool) {
	buf := make([]byte, 512)
	for {
		n, err := c.Read(buf)
		for _, b := range buf[:n] {
			x.in <- c20BoxEv{fromE, b, false}
		}
		if err != nil {
			x.in <- c20BoxEv{fromE, 0, true}
			return
		}
	}
}

func (x *c20Box) send(toE bool, b ...byte) {
	c := x.toH
	if toE {
		c = x.toE
	}
	_ = c.SetWriteDeadline(time.Now().Add(3 * time.Second))
	_, _ = c.Write(b)
}

func (x *c20Box) nextFault(fromE bool) byte {
	x.mu.Lock()
	defer x.mu.Unlock()
	q := x.faults[fromE]
	if len(q) == 0 {
		return 'n'
	}
	f := q[0]
	x.faults[fromE] = q[1:]
	return f
}

func (x *c20Box) addFaults(fromE bool, fl string) {
	x.mu.Lock()
	x.faults[fromE] = append(x.faults[fromE], fl...)
	x.mu.Unlock()
}

func (x *c20Box) record(l c20BoxLog) {
	l.Header = hex.EncodeToString(l.hdr[:])
	x.mu.Lock()
	x.log = append(x.log, l)
	x.mu.Unlock()
}

// run relays the half-duplex line: ENQ (sender) / EOT (receiver) / block (sender) / ACK|NAK (receiver).
func (x *c20Box) run(done chan struct{}) {
	const (
		idle = iota
		waitEOT
		inBlock
		waitAns
	)
	state := idle
	var senderE bool
	var f byte
	var blk []byte
	var cur c20BoxLog
	need := 0
	var backlog []c20BoxEv // events of the sender set aside while the box replays a block to the receiver
	next := func() (c20BoxEv, bool) {
		if len(backlog) > 0 {
			ev := backlog[0]
			backlog = backlog[1:]
			return ev, true
		}
		select {
		case ev := <-x.in:
			return ev, true
		case <-done:
			return c20BoxEv{}, false
		}
	}
	// await reads until the receiver (the side that is not senderE) sends one of want; sender-side bytes are set aside
	await := func(want ...byte) (byte, bool) {
		timeout := time.After(5 * time.Second)
		var aside []c20BoxEv
		defer func() { backlog = append(aside, backlog...) }()
		for {
			select {
			case ev := <-x.in:
				if ev.eof || ev.fromE == senderE {
					aside = append(aside, ev)
					if ev.eof {
						return 0, false
					}
					continue
				}
				for _, w := range want {
					if ev.b == w {
						return ev.b, true
					}
				}
			case <-timeout:
				return 0, false
			case <-done:
				return 0, false
			}
		}
	}
	eofs := 0
	for {
		ev, ok := next()
		if !ok {
			return
		}
		if ev.eof {
			eofs++
			if ev.fromE {
				_ = x.toH.Close()
			} else {
				_ = x.toE.Close()
			}
			if eofs >= 2 {
				return
			}
			continue
		}
		if ev.b == 0x05 && state != inBlock {
			x.mu.Lock()
			x.enqs[ev.fromE]++
			x.mu.Unlock()
		}
		switch {
		case state == inBlock && ev.fromE == senderE:
			blk = append(blk, ev.b)
			if len(blk) == 1 {
				need = int(ev.b) + 2
				continue
			}
			need--
			if need > 0 {
				continue
			}
			cur = c20BoxLog{FromE: senderE, Fault: string(f), Intact: true}
			if len(blk) >= 11 {
				copy(cur.hdr[:], blk[1:11])
			}
			out := append([]byte(nil), blk...)
			if f == 'k' {
				out[len(out)-1] ^= 0x01
				cur.Intact = false
			}
			x.send(!senderE, out...)
			state = waitAns
		case ev.b == 0x05 && (state == idle || ((state == waitEOT || state == waitAns) && ev.fromE == senderE)):
			// a request for the line (also the sender's re-ENQ after its T2 expired)
			if state == waitAns {
				x.record(cur) // no answer was seen for the block in flight
			}
			senderE = ev.fromE
			x.send(!ev.fromE, 0x05)
			state = waitEOT
		case state == waitEOT && ev.fromE != senderE && ev.b == 0x04:
			f = x.nextFault(senderE)
			x.send(senderE, 0x04)
			state, blk = inBlock, nil
		case state == waitEOT && ev.fromE == senderE && ev.b == 0x04:
			// the requester yields to a contending ENQ of the other side: the transfer runs the other way
			senderE = !senderE
			f = x.nextFault(senderE)
			x.send(senderE, 0x04)
			state, blk = inBlock, nil
		case state == waitAns && ev.fromE != senderE && (ev.b == 0x06 || ev.b == 0x15):
			cur.Answer = ev.b
			x.record(cur)
			switch {
			case ev.b == 0x06 && f == 'a':
				// the receiver accepted the block; the sender will never know
				state = idle
				continue
			case ev.b == 0x06 && f == 'd':
				// the same block appears on the line once more before the sender sees the ACK
				rep := c20BoxLog{FromE: senderE, Fault: "d", Intact: true, Replay: true, hdr: cur.hdr}
				x.send(!senderE, 0x05)
				if _, ok := await(0x04); ok {
					x.send(!senderE, blk...)
					rep.Answer, _ = await(0x06, 0x15)
				}
				x.record(rep)
			}
			x.send(senderE, ev.b)
			state = idle
		default:
			x.send(!ev.fromE, ev.b)
		}
	}
}

// ---- the two endpoints

type c20FMsg struct {
	Stream byte   `json:"stream"`
	Fn     byte   `json:"fn"`
	W      bool   `json:"w"`
	Blocks int    `json:"blocks"`
	Tag    uint32 `json:"tag"`
}

func (m c20FMsg) item() secs2.Item {
	if m.Blocks <= 1 {
		return secs2.NewUintItem(4, m.Tag)
	}
	p := bytes.Repeat([]byte{byte(m.Tag)}, 244*(m.Blocks-1)+40)
	p[0], p[1], p[2], p[3] = byte(m.Tag>>24), byte(m.Tag>>16), byte(m.Tag>>8), byte(m.Tag)
	return secs2.NewBinaryItem(p)
}

type c20FDeliv struct {
	Stream byte
	Fn     byte
	W      bool
	Body   []byte
}

type c20FSide struct {
	conn    secs1.Connection
	rec     *s1tRec   // recorded history of this endpoint's transport (s1t_hist.go)
	calls   []s1tCall // its send calls: primaries and the replies its handler sent
	mu      sync.Mutex
	deliv   []c20FDeliv
	replies int // replies this side's handler sent successfully
	replErr []string
	rwg     sync.WaitGroup
}

type c20FaultSpec struct {
	Name    string        `json:"name"`
	MsgsH   []c20FMsg     `json:"host_sends"`
	MsgsE   []c20FMsg     `json:"equipment_sends"`
	FaultsH string        `json:"faults_host_to_equipment"` // per block transfer attempt of that direction (primaries of the host AND its replies)
	FaultsE string        `json:"faults_equipment_to_host"`
	T1      time.Duration `json:"t1"`
	T2      time.Duration `json:"t2"`
}

type c20FaultObs struct {
	err              string
	okH, okE         int
	failH, failE     []string
	replyMismatch    []string
	delivH, delivE   []c20FDeliv // delivered AT the host / AT the equipment
	mH, mE           rMetrics
	dupH, dupE       uint64 // BlockDupDropCount at the host / at the equipment
	nakH, nakE       uint64
	invH, invE       uint64 // InvalidFirstBlockCount
	retryH, retryE   uint64
	closedH, closedE rMetrics
	log              []c20BoxLog
	leftH, leftE     int // fault letters not consumed
	sideH, sideE     *c20FSide
	blkH, blkE       *secs1.ConnectionMetrics
}

func c20RunFaults(sp c20FaultSpec) c20FaultObs {
	var obs c20FaultObs
	eA, eB := net.Pipe() // equipment <-> box
	hA, hB := net.Pipe() // host <-> box
	box := &c20Box{toE: eB, toH: hB, in: make(chan c20BoxEv, 1<<14), faults: map[bool][]byte{}, enqs: map[bool]int{}}
	boxDone := make(chan struct{})
	go box.pump(eB, true)
	go box.pump(hB, false)
	go box.run(boxDone)
	defer close(boxDone)
	const dev = 0x0123
	mk := func(isEquip bool, c net.Conn) (*c20FSide, error) {
		rec := newS1tRec(map[bool]string{true: "equipment", false: "host"}[isEquip])
		opts := []secs1.Option{secs1.WithDeviceID(dev), secs1.WithT1(sp.T1), secs1.WithT2(sp.T2), secs1.WithT4(30 * time.Second), secs1.WithRetryLimit(3),
			secs1.WithConnectionOption(hsms.WithT3(30 * time.Second)), secs1.WithConnectionOption(hsms.WithLogger(rNopLogger{}))}
		used := false
		if isEquip {
			ln := newS1PipeListener()
			ln.ch <- &s1tLazyConn{Conn: c, rec: rec}
			opts = append(opts, secs1.WithEquipment(), secs1.WithPassive(), secs1.WithListener(func(ctx context.Context, _, _ string) (net.Listener, error) {
				if used {
					return newS1PipeListener(), nil
				}
				used = true
				return ln, nil
			}))
		} else {
			opts = append(opts, secs1.WithHost(), secs1.WithActive(), secs1.WithDialer(func(ctx context.Context, _, _ string) (net.Conn, error) {
				if used {
					<-ctx.Done()
					return nil, ctx.Err()
				}
				used = true
				return rec.wrap(c), nil
			}))
		}
		cfg, err := secs1.NewConfig("127.0.0.1", 5000, opts...)
		if err != nil {
			return nil, err
		}
		conn, err := secs1.VerifNewTraced(cfg, rec.tr) // = secs1.New with the transport's calls bracketed by the recorder
		if err != nil {
			return nil, err
		}
		rec.blockSend = conn.BlockMetrics().BlockSendCount
		s := &c20FSide{conn: conn, rec: rec}
		conn.AddDataMessageHandler(func(msg *hsms.DataMessage, ep hsms.SECS2Endpoint) {
			d := c20FDeliv{Stream: msg.Stream(), Fn: msg.Function(), W: msg.WaitBit(), Body: msg.AppendBodyTo(nil)}
			s.mu.Lock()
			s.deliv = append(s.deliv, d)
			s.mu.Unlock()
			if msg.WaitBit() && msg.Function()%2 == 1 {
				// the handler runs inline on the line engine: the reply is sent from another goroutine
				s.rwg.Add(1)
				go func() {
					defer s.rwg.Done()
					ctx, cancel := context.WithTimeout(context.Background(), 30*time.Second)
					defer cancel()
					tag := uint32(rParseTag(d.Body)) + 1000000
					call := s1tCall{Kind: "a", Tag: int64(tag), StartSt: rStamp()} // ReplyDataMessage = SendAsync
					err := ep.ReplyDataMessage(ctx, msg, secs2.NewUintItem(4, tag))
					var r rCallResult
					rClassify(nil, err, &r)
					if r.Outcome == "nilnil" {
						r.Outcome = "sent"
					}
					call.Outcome, call.EndSt = r.Outcome, rStamp()
					s.mu.Lock()
					call.Idx = len(s.calls)
					s.calls = append(s.calls, call)
					if err == nil {
						s.replies++
					} else {
						s.replErr = append(s.replErr, err.Error())
					}
					s.mu.Unlock()
				}()
			}
		})
		ctx, cancel := context.WithTimeout(context.Background(), 10*time.Second)
		defer cancel()
		mode := hsms.OpenWaitSelected
		if isEquip {
			mode = hsms.OpenBackground
		}
		if err := conn.Open(ctx, mode); err != nil {
			return nil, err
		}
		for i := 0; i < 2000 && conn.State() != hsms.SelectedState; i++ {
			time.Sleep(2 * time.Millisecond)
		}
		if conn.State() != hsms.SelectedState {
			return nil, fmt.Errorf("not selected")
		}
		return s, nil
	}
	eq, err := mk(true, eA)
	if err != nil {
		obs.err = "equipment: " + err.Error()
		return obs
	}
	ho, err := mk(false, hA)
	if err != nil {
		obs.err = "host: " + err.Error()
		_ = eq.conn.Close()
		return obs
	}
	// one direction at a time (a W-bit primary and its reply alternate on the line, never contend)
	sendAll := func(s *c20FSide, msgs []c20FMsg, ok *int, fail *[]string) {
		for _, m := range msgs {
			ctx, cancel := context.WithTimeout(context.Background(), 40*time.Second)
			call := s1tCall{Kind: map[bool]string{true: "s", false: "f"}[m.W], Tag: int64(m.Tag), StartSt: rStamp()}
			reply, err := s.conn.SendDataMessage(ctx, m.Stream, m.Fn, m.W, m.item())
			cancel()
			var r rCallResult
			rClassify(reply, err, &r)
			if r.Outcome == "nilnil" {
				r.Outcome = "sent"
			}
			call.Outcome, call.EndSt = r.Outcome, rStamp()
			s.mu.Lock()
			call.Idx = len(s.calls)
			s.calls = append(s.calls, call)
			s.mu.Unlock()
			if err != nil {
				*fail = append(*fail, fmt.Sprintf("S%dF%d tag %d: %v", m.Stream, m.Fn, m.Tag, err))
				return // the link is being re-established: the scenario is disturbed
			}
			*ok++
			if m.W {
				if reply == nil || reply.Function() != m.Fn+1 || rParseTag(reply.AppendBodyTo(nil)) != int64(m.Tag)+1000000 {
					obs.replyMismatch = append(obs.replyMismatch, fmt.Sprintf("S%dF%d tag %d", m.Stream, m.Fn, m.Tag))
				}
			}
		}
	}
	// the fault letters of a direction are consumed by whatever travels that way: primaries, and the replies to the other side's primaries
	box.addFaults(false, sp.FaultsH)
	box.addFaults(true, sp.FaultsE)
	sendAll(ho, sp.MsgsH, &obs.okH, &obs.failH)
	eq.rwg.Wait()
	time.Sleep(2*sp.T1 + 20*time.Millisecond)
	sendAll(eq, sp.MsgsE, &obs.okE, &obs.failE)
	ho.rwg.Wait()
	box.mu.Lock()
	obs.leftH, obs.leftE = len(box.faults[false]), len(box.faults[true])
	box.mu.Unlock()
	// quiescence: a last delivery / duplicate may still be in the receiver's engine — and a REPLY is sent through the
	// async path (ReplyDataMessage returns at enqueue), so its block may still be on the line: when its ACK was dropped
	// the sender retransmits only after T2. The line is quiet once the box has logged no block for T2 + 2 x T1 (a pending
	// retry would have shown within T2). (Was a fixed 3 x T1 sleep: with T2 > 3 x T1 the counters were read while the
	// last reply's retransmission was still to come — false alarm in a thorough sweep, seed 44, recorded in DESIGN 9.4.)
	time.Sleep(3*sp.T1 + 50*time.Millisecond)
	quiet := sp.T2 + 2*sp.T1
	lastN, lastChange := -1, time.Now()
	for deadline := time.Now().Add(8*sp.T2 + 10*time.Second); time.Now().Before(deadline); time.Sleep(20 * time.Millisecond) {
		box.mu.Lock()
		n := len(box.log)
		box.mu.Unlock()
		if n != lastN {
			lastN, lastChange = n, time.Now()
		} else if time.Since(lastChange) >= quiet {
			break
		}
	}
	box.mu.Lock()
	obs.leftH, obs.leftE = len(box.faults[false]), len(box.faults[true])
	box.mu.Unlock()
	obs.mH, obs.mE = rReadMetrics(ho.conn), rReadMetrics(eq.conn)
	bh, be := ho.conn.BlockMetrics(), eq.conn.BlockMetrics()
	obs.dupH, obs.dupE = bh.BlockDupDropCount(), be.BlockDupDropCount()
	obs.nakH, obs.nakE = bh.BlockNAKSentCount(), be.BlockNAKSentCount()
	obs.invH, obs.invE = bh.InvalidFirstBlockCount(), be.InvalidFirstBlockCount()
	obs.retryH, obs.retryE = bh.BlockRetryCount(), be.BlockRetryCount()
	ho.mu.Lock()
	obs.delivH = append([]c20FDeliv(nil), ho.deliv...)
	obs.failH = append(obs.failH, ho.replErr...)
	repliesH := ho.replies
	ho.mu.Unlock()
	eq.mu.Lock()
	obs.delivE = append([]c20FDeliv(nil), eq.deliv...)
	obs.failE = append(obs.failE, eq.replErr...)
	repliesE := eq.replies
	eq.mu.Unlock()
	obs.okH += repliesH
	obs.okE += repliesE
	closeBoth := make(chan struct{})
	go func() { _ = eq.conn.Close(); _ = ho.conn.Close(); close(closeBoth) }()
	select {
	case <-closeBoth:
	case <-time.After(15 * time.Second):
		obs.err = "Close did not return"
	}
	obs.closedH, obs.closedE = rReadMetrics(ho.conn), rReadMetrics(eq.conn)
	obs.sideH, obs.sideE, obs.blkH, obs.blkE = ho, eq, bh, be
	box.mu.Lock()
	obs.log = append([]c20BoxLog(nil), box.log...)
	box.mu.Unlock()
	return obs
}

// c20FaultString: n letters over {n a k d}, never more than two retry-consuming faults (a, k) in a row, so a block
// needs at most three attempts (retry limit 3 allows four).
func c20FaultString(c *Ctx, n int) string {
	out := make([]byte, 0, n)
	run := 0
	for len(out) < n {
		f := "nnakad"[c.Rng.IntN(6)]
		if f == 'a' || f == 'k' {
			if run == 2 {
				f = 'n'
			}
		}
		if f == 'a' || f == 'k' {
			run++
		} else {
			run = 0
		}
		out = append(out, f)
	}
	return string(out)
}

func c20FaultSpecs(c *Ctx) []c20FaultSpec {
	mkMsgs := func(base uint32, shapes []int, ws []bool) []c20FMsg {
		var ms []c20FMsg
		for i, b := range shapes {
			ms = append(ms, c20FMsg{Stream: byte(1 + c.Rng.IntN(60)), Fn: byte(1 + 2*c.Rng.IntN(60)), W: ws[i%len(ws)] && b == 1, Blocks: b, Tag: base + uint32(i)})
		}
		return ms
	}
	t1, t2 := 150*time.Millisecond, 500*time.Millisecond
	specs := []c20FaultSpec{
		// every ACK of a single-block message lost once (directed: the terminating block's retransmission), both directions
		{Name: "lost-ack-single-block", MsgsH: mkMsgs(100, []int{1, 1, 1}, []bool{false}), MsgsE: mkMsgs(200, []int{1, 1}, []bool{false}),
			FaultsH: "ananan", FaultsE: "naan"},
		// multi-block messages: lost ACK / NAK / duplicate on first, middle and last blocks; W-bit transactions whose reply is hit
		{Name: "multi-block-and-replies", MsgsH: mkMsgs(300, []int{3, 1, 2}, []bool{false, true, false}), MsgsE: mkMsgs(400, []int{2, 1}, []bool{true, false}),
			FaultsH: "nandnkadn", FaultsE: "kanadn"},
		{Name: "duplicates", MsgsH: mkMsgs(500, []int{1, 2, 1}, []bool{false}), MsgsE: mkMsgs(600, []int{1, 1}, []bool{true}),
			FaultsH: "ddnd", FaultsE: "dndd"},
	}
	for k := 0; k < c.Pick(0, 8); k++ {
		nh, ne := 2+c.Rng.IntN(3), 1+c.Rng.IntN(3)
		shape := func(n int) []int {
			s := make([]int, n)
			for i := range s {
				s[i] = []int{1, 1, 1, 2, 3}[c.Rng.IntN(5)]
			}
			return s
		}
		specs = append(specs, c20FaultSpec{Name: fmt.Sprintf("random-%d", k), MsgsH: mkMsgs(1000+uint32(100*k), shape(nh), []bool{false, true, false}),
			MsgsE: mkMsgs(5000+uint32(100*k), shape(ne), []bool{false, false, true}), FaultsH: c20FaultString(c, 6+c.Rng.IntN(6)), FaultsE: c20FaultString(c, 4+c.Rng.IntN(5))})
	}
	for i := range specs {
		specs[i].T1, specs[i].T2 = t1, t2
	}
	return specs
}

// c20FaultOracle evaluates the conservation clauses; it returns the violations (kind, what, detail).
func c20FaultOracle(sp c20FaultSpec, o c20FaultObs) (viols [][3]string, disturbed bool) {
	add := func(kind, what, detail string) { viols = append(viols, [3]string{kind, what, detail}) }
	if o.err != "" {
		add("correspondence", "scenario-did-not-start", "secs1 faults: "+o.err)
		return viols, true
	}
	if len(o.failH)+len(o.failE) > 0 {
		// within the fault budget every send succeeds unless a line timer was starved
		add("correspondence", "scenario-incomplete", fmt.Sprintf("secs1 faults: sends failed although no block met more than two faults in a row: host %v, equipment %v", o.failH, o.failE))
		return viols, true
	}
	// what the box saw, per direction
	type dirStat struct{ dups, naks, intact int }
	stat := map[bool]*dirStat{true: {}, false: {}}
	last := map[bool][10]byte{}
	have := map[bool]bool{}
	for _, l := range o.log {
		st := stat[l.FromE]
		if l.Answer == 0x15 {
			st.naks++
		}
		if !l.Intact || l.Answer != 0x06 {
			continue
		}
		st.intact++
		if have[l.FromE] && last[l.FromE] == l.hdr {
			st.dups++
		} else {
			last[l.FromE], have[l.FromE] = l.hdr, true
		}
	}
	check := func(dir string, sender, receiver rMetrics, ok int, sent []c20FMsg, deliv []c20FDeliv, dup, nak uint64, st *dirStat, inv uint64) {
		if int(sender.Sent) != ok {
			add("property", "sent-counter-differs-from-wire", fmt.Sprintf("SECS-I %s under line faults: the sender's DataMsgSendCount = %d but %d of its sends (primaries and replies) completed", dir, sender.Sent, ok))
		}
		if int(receiver.Recv) != ok {
			add("property", "recv-counter-differs-from-wire", fmt.Sprintf("SECS-I %s under line faults: the receiver's DataMsgRecvCount = %d but the peer sent %d messages (each send completed exactly once; "+
				"%d blocks arrived a second time — lost ACK / duplicate — and must be dropped, not counted); BlockDupDropCount = %d, InvalidFirstBlockCount = %d", dir, receiver.Recv, ok, st.dups, dup, inv))
		}
		// handler deliveries = the peer's primaries, exactly once each, intact, in order
		for j, m := range sent {
			want := m.item().ToBytes()
			n := 0
			for _, d := range deliv {
				if d.Stream == m.Stream && d.Fn == m.Fn && d.W == m.W && bytes.Equal(d.Body, want) {
					n++
				}
			}
			if n != 1 {
				add("property", "secs1-message-not-delivered-exactly-once", fmt.Sprintf("SECS-I %s under line faults: the message S%dF%d tag %d (%d block(s)), sent once successfully, was delivered to the handler %d times", dir, m.Stream, m.Fn, m.Tag, m.Blocks, n))
			}
			if len(deliv) == len(sent) && n == 1 && !(deliv[j].Stream == m.Stream && deliv[j].Fn == m.Fn && bytes.Equal(deliv[j].Body, want)) {
				add("property", "secs1-delivery-order", fmt.Sprintf("SECS-I %s under line faults: delivery %d is not the %d-th message sent", dir, j, j))
			}
		}
		if len(deliv) != len(sent) {
			add("property", "secs1-handler-deliveries-differ-from-sends", fmt.Sprintf("SECS-I %s under line faults: %d handler deliveries for %d primaries sent", dir, len(deliv), len(sent)))
		}
		if int(dup) != st.dups {
			add("property", "secs1-dup-drop-counter-differs-from-line", fmt.Sprintf("SECS-I %s under line faults: the receiver's BlockDupDropCount = %d but %d intact blocks arrived whose header equals the last accepted block's (retransmission after a lost ACK / duplicate on the line)", dir, dup, st.dups))
		}
		if int(nak) != st.naks {
			add("property", "secs1-nak-counter-differs-from-line", fmt.Sprintf("SECS-I %s under line faults: the receiver's BlockNAKSentCount = %d but the line carried %d NAKs from it", dir, nak, st.naks))
		}
	}
	check("host->equipment", o.mH, o.mE, o.okH, sp.MsgsH, o.delivE, o.dupE, o.nakE, stat[false], o.invE)
	check("equipment->host", o.mE, o.mH, o.okE, sp.MsgsE, o.delivH, o.dupH, o.nakH, stat[true], o.invH)
	if len(o.replyMismatch) > 0 {
		add("property", "secs1-reply-mismatch", fmt.Sprintf("SECS-I under line faults: W-bit sends %v did not return their own reply", o.replyMismatch))
	}
	for _, m := range []struct {
		who string
		m   rMetrics
	}{{"host", o.mH}, {"equipment", o.mE}, {"host after Close", o.closedH}, {"equipment after Close", o.closedE}} {
		if m.m.Inflight != 0 {
			add("property", "inflight-not-zero-at-quiescence", fmt.Sprintf("SECS-I under line faults, %s: in-flight gauge = %d with no send call running", m.who, m.m.Inflight))
		}
		if m.m.Retry != 0 {
			add("property", "retry-gauge-not-zero-at-quiescence", fmt.Sprintf("SECS-I under line faults, %s: reconnecting gauge = %d", m.who, m.m.Retry))
		}
		if m.m.Err != 0 {
			add("property", "err-counter-differs-from-outcomes", fmt.Sprintf("SECS-I under line faults, %s: DataMsgErrCount = %d although every send succeeded", m.who, m.m.Err))
		}
	}
	return viols, false
}

func c20SECS1Faults(c *Ctx) {
	for _, sp := range c20FaultSpecs(c) {
		if routerStop(c) {
			return
		}
		o := c20RunFaults(sp)
		viols, _ := c20FaultOracle(sp, o)
		if len(viols) > 0 {
			// a loaded machine can starve a line timer: once more with wide timers, and only that result counts
			c.Stat("secs1-faults-retried-with-scaled-timers")
			sp.T1, sp.T2 = 3*sp.T1, 3*sp.T2
			sp.Name += "(x3)"
			o = c20RunFaults(sp)
			viols, _ = c20FaultOracle(sp, o)
		}
		replay := map[string]any{"family": "secs1-conservation-under-line-faults", "spec": sp, "line": o.log,
			"host(sent,recv,inflight,err,drop,asyncErr,retry)": o.mH.String(), "equipment(sent,recv,inflight,err,drop,asyncErr,retry)": o.mE.String(),
			"dup_drop(host,equipment)": []uint64{o.dupH, o.dupE}, "nak_sent(host,equipment)": []uint64{o.nakH, o.nakE},
			"invalid_first_block(host,equipment)": []uint64{o.invH, o.invE}, "block_retries(host,equipment)": []uint64{o.retryH, o.retryE},
			"handler_deliveries(host,equipment)": []int{len(o.delivH), len(o.delivE)}, "faults_not_consumed(host,equipment)": []int{o.leftH, o.leftE}}
		for _, v := range viols {
			c.Violate(v[0], v[1], v[2], replay)
		}
		// correspondence: each endpoint's recorded history against the Lean model of the transport's generation / hand-off layer
		if o.err == "" && len(o.failH)+len(o.failE) == 0 {
			for _, sd := range []struct {
				s *c20FSide
				m rMetrics
				b *secs1.ConnectionMetrics
			}{{o.sideH, o.closedH, o.blkH}, {o.sideE, o.closedE, o.blkE}} {
				if sd.s == nil {
					continue
				}
				sd.s.mu.Lock()
				calls := append([]s1tCall(nil), sd.s.calls...)
				sd.s.mu.Unlock()
				sv, srep := s1tCheck(c, sd.s.rec, calls, s1tExpect{M: sd.m, Blocks: sd.b, Checked: true})
				for _, v := range sv {
					if srep != nil {
						srep["spec"] = sp
					}
					c.Violate("correspondence", v[0], v[1], srep)
				}
			}
		}
		na := 0
		for _, l := range o.log {
			c.Stat("secs1-fault:" + l.Fault)
			if l.Fault != "n" {
				na++
			}
		}
		c.Count(fmt.Sprintf("secs1-faults|%s|%s|%s|%d|%d", sp.Name, sp.FaultsH, sp.FaultsE, len(sp.MsgsH), len(sp.MsgsE)), na > 0)
		c.Stat("scenario:secs1-conserve-under-faults")
		c.StatN("secs1-dup-blocks-dropped", int(o.dupH+o.dupE))
		if len(c.Res.Samples) < 8 && len(viols) == 0 {
			c.Sample(map[string]any{"scenario": "secs1-faults/" + sp.Name, "faults(host->equip,equip->host)": []string{sp.FaultsH, sp.FaultsE},
				"host(sent,recv,inflight,err,drop,asyncErr,retry)": o.mH.String(), "equipment(sent,recv,inflight,err,drop,asyncErr,retry)": o.mE.String(),
				"dup_drop(host,equipment)": []uint64{o.dupH, o.dupE}, "nak_sent(host,equipment)": []uint64{o.nakH, o.nakE}, "block_transfers_on_the_line": len(o.log)})
		}
	}
}
