//go:build race

package main

// raceBuild: the binary is instrumented by the race detector (thorough tier of the properties with "race": true);
// wall-clock allowances are scaled, see c14.go.
const raceBuild = true
