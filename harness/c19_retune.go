package main

// C19 with a LIVE re-tune of T6: the probe deadline follows the configured T6 ("about threshold x (interval + T6)"
// with the configured T6; "a peer that answers probes is never disconnected"). The connection is opened with a short
// T6, a few probes are answered at once, then T6 is raised on the live connection (UpdateConfigOptions) and the peer
// answers every further probe slower than the OLD T6 but well within the NEW one: no probe may be counted as a
// timeout and the link must stay up. Also the converse: T6 lowered on the live connection, the peer silent — the link
// must be dropped on the NEW, shorter schedule. Added after seeded change C19e-1 (T6 read once per Selected session).

import (
	"fmt"
	"time"

	"github.com/arloliu/go-secs/v2/hsms"
)

type c19RetuneCase struct {
	active   bool
	suppress bool
	k        int
	raise    bool // true: short -> long with a slow-but-answering peer; false: long -> short with a silent peer
}

func c19RetuneRun(cs c19RetuneCase, scale int) (bad [][2]string, info map[string]any) {
	unit := time.Duration(60*scale) * time.Millisecond
	short, long := unit, 30*unit
	first := short
	if !cs.raise {
		first = long
	}
	ep, err := NewEndpoint(cs.active, []hsms.ConnOption{
		hsms.WithLinktestInterval(unit), hsms.WithT6(first), hsms.WithLinktestFailThreshold(cs.k),
		hsms.WithLinktestSuppression(cs.suppress), hsms.WithT3(30 * time.Second),
	})
	if err != nil {
		return [][2]string{{"correspondence:timeline-setup-failed", err.Error()}}, nil
	}
	defer ep.Shutdown()
	if err := ep.Open(); err != nil {
		return [][2]string{{"correspondence:timeline-setup-failed", err.Error()}}, nil
	}
	p, _, err := ep.EstablishSelected(5 * time.Second)
	if err != nil {
		return [][2]string{{"correspondence:timeline-setup-failed", err.Error()}}, nil
	}
	defer p.Close()
	m := ep.Conn.ControlMetrics()
	answer := func(f PFrame) { _ = p.Send(mkFrame(0xFFFF, 0, 0, 0, 6, f.Sys(), nil)) }
	// phase 1: two probes answered at once
	for n := 0; n < 2; {
		f, err := p.Recv(20 * unit)
		if err != nil {
			return [][2]string{{"correspondence:timeline-setup-failed", "no probe arrived in phase 1: " + err.Error()}}, nil
		}
		if f.SType() == 5 {
			answer(f)
			n++
		}
	}
	errBefore := m.LinktestErrCount()
	newT6 := long
	if !cs.raise {
		newT6 = short
	}
	if err := ep.Conn.UpdateConfigOptions(hsms.WithT6(newT6)); err != nil {
		return [][2]string{{"correspondence:timeline-setup-failed", "UpdateConfigOptions(WithT6): " + err.Error()}}, nil
	}
	retunedAt := time.Now()
	info = map[string]any{"role_active": cs.active, "suppress": cs.suppress, "threshold": cs.k, "t6_before_ms": first.Milliseconds(), "t6_after_ms": newT6.Milliseconds(),
		"interval_ms": unit.Milliseconds()}
	if cs.raise {
		// phase 2: every probe answered after 4 x the OLD T6 (far inside the new one)
		probes := 0
		deadline := time.Now().Add(time.Duration(6+2*cs.k) * 6 * unit)
		for probes < 4+cs.k && time.Now().Before(deadline) {
			f, err := p.Recv(time.Until(deadline))
			if err == errPeerClosed {
				info["dropped_after_ms"] = time.Since(retunedAt).Milliseconds()
				info["probes_after_retune"] = probes
				return append(bad, [2]string{"property:live-link-dropped", fmt.Sprintf("T6 was raised from %v to %v on the live connection and the peer answered every probe after %v, yet the linktest disconnected it after %d probes (LinktestErrCount moved by %d)",
					short, long, 4*short, probes, m.LinktestErrCount()-errBefore)}), info
			}
			if err != nil {
				break
			}
			if f.SType() == 5 {
				probes++
				sys := f
				go func() { time.Sleep(4 * short); answer(sys) }()
			}
		}
		time.Sleep(5 * short)
		info["probes_after_retune"] = probes
		if d := m.LinktestErrCount() - errBefore; d != 0 && !p.IsClosed() {
			bad = append(bad, [2]string{"property:answered-probe-counted-as-timeout", fmt.Sprintf("T6 raised to %v on the live connection; %d probes answered after %v were counted as timeouts", long, d, 4*short)})
		}
		if p.IsClosed() {
			bad = append(bad, [2]string{"property:live-link-dropped", "the link was dropped although every probe was answered within the configured T6"})
		}
		return bad, info
	}
	// lowered: the peer goes silent; the drop must come on the NEW schedule: about k x (interval + short), far
	// below one single old T6
	closed, at := p.WaitClosed(long - 2*unit)
	if !closed {
		bad = append(bad, [2]string{"property:dead-link-not-dropped", fmt.Sprintf("T6 was lowered from %v to %v on the live connection, the peer is silent, and the link is still up %v later (threshold %d)", long, short, long-2*unit, cs.k)})
	} else {
		info["dropped_after_ms"] = at.Sub(retunedAt).Milliseconds()
	}
	return bad, info
}

func c19Retune(c *Ctx) {
	var cases []c19RetuneCase
	for _, act := range []bool{true, false} {
		cases = append(cases, c19RetuneCase{act, false, 2, true}, c19RetuneCase{act, true, 1, true}, c19RetuneCase{act, false, 1, true},
			c19RetuneCase{act, true, 2, false}, c19RetuneCase{act, false, 1, false})
	}
	for _, cs := range cases {
		var bad [][2]string
		var info map[string]any
		for _, scale := range []int{1, 3, 9} {
			bad, info = c19RetuneRun(cs, scale)
			if len(bad) == 0 {
				break
			}
			c.Stat("retune:retry")
		}
		c.Count(fmt.Sprintf("retune|%v|%v|%d|%v", cs.active, cs.suppress, cs.k, cs.raise), true)
		c.Stat("retune-timelines")
		for _, b := range bad {
			kind, what := "property", b[0]
			if len(what) > 15 && what[:15] == "correspondence:" {
				kind, what = "correspondence", what[15:]
			} else if len(what) > 9 && what[:9] == "property:" {
				what = what[9:]
			}
			c.Violate(kind, what, b[1], info)
		}
	}
}

// c19SlowHandler: receive activity is stamped when a frame ARRIVES, not when the application is done with it. The peer
// answers every probe, but just before each answer it sends a data message whose (inline) handler runs longer than
// T6: the probe times out while the receive goroutine is still inside the handler, yet a frame did arrive after the
// probe went out, so the failure must be credited and the link kept (suppression on, threshold 2 and 3). Added after
// seeded change C19f-2 (the stamp moved behind dispatchFrame).
func c19SlowHandler(c *Ctx) {
	for _, act := range []bool{true, false} {
		for _, k := range []int{2} {
			var bad string
			var info map[string]any
			for _, scale := range []int{1, 3, 9} {
				bad, info = c19SlowHandlerRun(act, k, scale)
				if bad == "" {
					break
				}
				c.Stat("slow-handler:retry")
			}
			c.Count(fmt.Sprintf("slow-handler|%v|%d", act, k), true)
			c.Stat("slow-handler-timelines")
			if bad != "" {
				kind, what := "property", "live-link-dropped"
				if len(bad) > 6 && bad[:6] == "setup:" {
					kind, what = "correspondence", "timeline-setup-failed"
				}
				c.Violate(kind, what, bad, info)
			}
		}
	}
}

func c19SlowHandlerRun(active bool, k, scale int) (string, map[string]any) {
	unit := time.Duration(60*scale) * time.Millisecond
	ep, err := NewEndpoint(active, []hsms.ConnOption{
		hsms.WithLinktestInterval(unit), hsms.WithT6(unit), hsms.WithLinktestFailThreshold(k),
		hsms.WithLinktestSuppression(true), hsms.WithT3(30 * time.Second),
	})
	if err != nil {
		return "setup:" + err.Error(), nil
	}
	defer ep.Shutdown()
	// the handler outlasts exactly two probe cycles (probe at 0 and 2u, expiries at u and 3u; it returns at 4u, before
	// the third probe can expire): with the arrival stamp the first expiry is credited and the second is the first of a
	// new run, so threshold 2 is never reached
	ep.Conn.AddDataMessageHandler(func(_ *hsms.DataMessage, _ hsms.SECS2Endpoint) { time.Sleep(4 * unit) })
	if err := ep.Open(); err != nil {
		return "setup:" + err.Error(), nil
	}
	p, _, err := ep.EstablishSelected(5 * time.Second)
	if err != nil {
		return "setup:" + err.Error(), nil
	}
	defer p.Close()
	m := ep.Conn.ControlMetrics()
	info := map[string]any{"role_active": active, "threshold": k, "t6_ms": unit.Milliseconds(), "interval_ms": unit.Milliseconds(), "handler_ms": (4 * unit).Milliseconds()}
	probes := 0
	deadline := time.Now().Add(time.Duration(4*k+8) * 3 * unit)
	for probes < 2*k+2 && time.Now().Before(deadline) {
		f, err := p.Recv(time.Until(deadline))
		if err == errPeerClosed {
			info["probes"] = probes
			info["linktest_err"], info["credited"] = m.LinktestErrCount(), m.LinktestCreditedCount()
			return fmt.Sprintf("the peer answered every probe and a data frame arrived after each probe went out (its handler ran %v, T6 = %v), yet the linktest disconnected after %d probes (err=%d credited=%d)",
				4*unit, unit, probes, m.LinktestErrCount(), m.LinktestCreditedCount()), info
		}
		if err != nil {
			break
		}
		if f.SType() == 5 {
			probes++
			if probes == 1 {
				_ = p.Send(mkFrame(0xFFFF, 6, 11, 0, 0, sysOf(0x58000001), nil)) // the one data message, just before the first answer
			}
			_ = p.Send(mkFrame(0xFFFF, 0, 0, 0, 6, f.Sys(), nil))
		}
	}
	info["probes"] = probes
	if probes == 0 {
		return "setup:no probe arrived", info
	}
	if p.IsClosed() {
		return "the link was dropped although the peer answered every probe", info
	}
	return "", info
}
