package main

// C18 end-to-end mode: two REAL secs1 connections (equipment = master, host = slave) joined by a middlebox
// that understands the E4 handshake just enough to apply one fault per block-transfer attempt of the
// endpoint holding the line (the master whenever it has something to send). Send results and handler
// deliveries are compared with the two-endpoint Lean model (`secs1.line`), and the property's own oracle
// (a successful send is delivered exactly once and intact, nothing is delivered twice or altered, order per
// direction, the master's message first under contention) is evaluated on the implementation.
//
// Only fault placements whose outcome does not depend on a timer race are generated (see `e2eScenarios`):
// the model abstracts T1/T2 to "the awaited character never came".

import (
	"bytes"
	"context"
	"encoding/hex"
	"fmt"
	"net"
	"strings"
	"sync"
	"time"

	"github.com/arloliu/go-secs/v2/hsms"
	"github.com/arloliu/go-secs/v2/secs1"
	"github.com/arloliu/go-secs/v2/secs2"
)

type e2eMsg struct {
	stream, fn byte
	payload    []byte // binary item payload
}

func (m e2eMsg) item() secs2.Item { return secs2.NewBinaryItem(m.payload) }
func (m e2eMsg) body() []byte     { return m.item().ToBytes() }

type e2eScenario struct {
	limitE, limitH int
	msgsE, msgsH   []e2eMsg
	faults         string // one letter per attempt of the line holder: n f t k q o a l
	tag            string
	slowENQ        time.Duration // slow line: the ENQ of every block after the first is held back this long
	t2, t4         time.Duration // overrides (0 = the tier's T2 / 30 s)
}

type e2eSide struct {
	conn    secs1.Connection
	mu      sync.Mutex
	deliv   [][]byte
	delivAt []time.Time
	results []error
}

type e2eObs struct {
	delivE, delivH   [][]byte // frames delivered at the equipment / at the host
	okE, okH         int
	failE, failH     int
	sysE, sysH       [][4]byte // system bytes of the messages seen on the line, in order of first appearance
	firstDelivAtHost time.Time
	firstDelivAtEq   time.Time
	attempts         int
	err              string
}

// middlebox relays bytes between the two connections and applies faults.
type e2eBox struct {
	toE, toH   net.Conn // the box's ends of the two pipes
	in         chan e2eByte
	faults     string
	next       int
	pendingE   int // blocks the equipment still has to get ACKed (known from the scenario)
	pendingH   int
	sysE, sysH [][4]byte
	hold       bool // contention barrier: hold the first ENQ of each side until both have arrived
	mu         sync.Mutex
	attempts   int
	slowENQ    time.Duration
}

type e2eByte struct {
	fromE bool
	b     byte
	eof   bool
}

func (x *e2eBox) pump(c net.Conn, fromE bool) {
	buf := make([]byte, 512)
	for {
		n, err := c.Read(buf)
		for _, b := range buf[:n] {
			x.in <- e2eByte{fromE, b, false}
		}
		if err != nil {
			x.in <- e2eByte{fromE, 0, true}
			return
		}
	}
}

func (x *e2eBox) send(toE bool, b ...byte) {
	c := x.toH
	if toE {
		c = x.toE
	}
	_ = c.SetWriteDeadline(time.Now().Add(3 * time.Second))
	_, _ = c.Write(b)
}

func (x *e2eBox) fault() byte {
	x.attempts++
	if x.next < len(x.faults) {
		f := x.faults[x.next]
		x.next++
		return f
	}
	return 'n'
}

// run is the relay loop. holderIsE: the equipment holds the line whenever it has blocks pending.
func (x *e2eBox) run(done chan struct{}) {
	const (
		idle = iota
		waitEOT
		inBlock
		waitAck
	)
	state := idle
	var senderE bool // direction of the transfer in progress (true = equipment sends)
	var f byte
	var blk []byte
	need := 0
	var heldE, heldH bool
	eofs := 0
	for {
		var ev e2eByte
		select {
		case ev = <-x.in:
		case <-done:
			return
		}
		if ev.eof {
			eofs++
			// one side closed (teardown after a failed send): close the other side too, like a dropped TCP link
			if ev.fromE {
				_ = x.toH.Close()
			} else {
				_ = x.toE.Close()
			}
			if eofs >= 2 {
				return
			}
			continue
		}
		holderE := x.pendingE > 0
		isHolder := ev.fromE == holderE && (x.pendingE > 0 || x.pendingH > 0)
		if x.hold && ev.b == 0x05 && state == idle {
			// contention barrier: park the first ENQ of each side until both have arrived
			if ev.fromE {
				heldE = true
			} else {
				heldH = true
			}
			if !(heldE && heldH) {
				continue
			}
			x.hold = false
			x.send(holderE, 0x05)                 // the slave's ENQ reaches the master (which ignores it)
			ev = e2eByte{fromE: holderE, b: 0x05} // and the master's ENQ opens the first attempt
			isHolder = true
		}
		switch {
		case state == inBlock && ev.fromE == senderE:
			blk = append(blk, ev.b)
			if len(blk) == 1 {
				need = int(ev.b) + 2
				continue
			}
			need--
			if need > 0 {
				continue
			}
			// whole block read from the sender: remember the message's system bytes, apply the fault, forward
			if len(blk) >= 11 {
				var sys [4]byte
				copy(sys[:], blk[7:11])
				lst := &x.sysH
				if senderE {
					lst = &x.sysE
				}
				if len(*lst) == 0 || (*lst)[len(*lst)-1] != sys {
					*lst = append(*lst, sys)
				}
			}
			out := append([]byte(nil), blk...)
			switch f {
			case 'f':
				out[1+(len(out)-3)/2] ^= 0x04
			case 'k':
				out[len(out)-1] ^= 0x01
			case 't':
				out = out[:len(out)-2]
			case 'l':
				// ONE flipped character, the length byte, to a smaller still-valid length: the receiver's checksum
				// fails after a shortened read and the tail of the transmission is still on the line when it has to
				// answer (after seeded change C18b-1: NAK sent without first listening until the line is quiet)
				if out[0] >= 0x8A {
					out[0] ^= 0x80
				} else {
					out[1+(len(out)-3)/2] ^= 0x04
				}
			}
			x.send(!senderE, out...)
			state = waitAck
		case ev.b == 0x05 && isHolder && state != inBlock:
			// an ENQ of the line holder opens a new attempt (also after its T2 expired in waitEOT / waitAck)
			f = x.fault()
			senderE = ev.fromE
			if x.slowENQ > 0 && x.attempts > 1 {
				time.Sleep(x.slowENQ) // the line is quiet meanwhile: the sender waits for EOT under T2
			}
			if f == 'q' {
				state = idle
				continue
			}
			x.send(!ev.fromE, 0x05)
			state = waitEOT
		case state == waitEOT && ev.fromE != senderE && ev.b == 0x04:
			if f == 'o' {
				state = idle
				continue
			}
			x.send(senderE, 0x04)
			state, blk = inBlock, nil
		case state == waitAck && ev.fromE != senderE && (ev.b == 0x06 || ev.b == 0x15):
			if ev.b == 0x06 {
				if f == 'a' {
					// the receiver accepted the block; the sender will never know
					state = idle
					continue
				}
				if senderE {
					x.pendingE--
				} else {
					x.pendingH--
				}
			}
			x.send(senderE, ev.b)
			state = idle
		default:
			// anything else (a contending ENQ of the non-holder, a stray NAK after a lost EOT) passes through
			x.send(!ev.fromE, ev.b)
		}
	}
}

func e2eBlocks(m e2eMsg) int { return max(1, (len(m.body())+243)/244) }

func runE2E(sc e2eScenario, tm c18Timers) e2eObs {
	var obs e2eObs
	eA, eB := net.Pipe() // equipment <-> box
	hA, hB := net.Pipe() // host <-> box
	box := &e2eBox{toE: eB, toH: hB, in: make(chan e2eByte, 1<<14), faults: sc.faults, hold: len(sc.msgsE) > 0 && len(sc.msgsH) > 0, slowENQ: sc.slowENQ}
	if sc.t2 > 0 {
		tm.t2 = sc.t2
	}
	t4 := 30 * time.Second
	if sc.t4 > 0 {
		t4 = sc.t4
	}
	for _, m := range sc.msgsE {
		box.pendingE += e2eBlocks(m)
	}
	for _, m := range sc.msgsH {
		box.pendingH += e2eBlocks(m)
	}
	boxDone := make(chan struct{})
	go box.pump(eB, true)
	go box.pump(hB, false)
	go box.run(boxDone)
	defer close(boxDone)

	const dev = 0x0123
	mk := func(isEquip bool, limit int, c net.Conn) (*e2eSide, error) {
		opts := []secs1.Option{secs1.WithDeviceID(dev), secs1.WithT1(tm.t1), secs1.WithT2(tm.t2), secs1.WithT4(t4), secs1.WithRetryLimit(limit),
			secs1.WithConnectionOption(hsms.WithT3(20 * time.Second))}
		used := false
		if isEquip {
			ln := newS1PipeListener()
			ln.ch <- c
			opts = append(opts, secs1.WithEquipment(), secs1.WithPassive(), secs1.WithListener(func(ctx context.Context, _, _ string) (net.Listener, error) {
				if used {
					return newS1PipeListener(), nil // later generations never get a peer
				}
				used = true
				return ln, nil
			}))
		} else {
			opts = append(opts, secs1.WithHost(), secs1.WithActive(), secs1.WithDialer(func(ctx context.Context, _, _ string) (net.Conn, error) {
				if used {
					<-ctx.Done()
					return nil, ctx.Err()
				}
				used = true
				return c, nil
			}))
		}
		cfg, err := secs1.NewConfig("127.0.0.1", 5000, opts...)
		if err != nil {
			return nil, err
		}
		conn, err := secs1.New(cfg)
		if err != nil {
			return nil, err
		}
		s := &e2eSide{conn: conn}
		conn.AddDataMessageHandler(func(msg *hsms.DataMessage, _ hsms.SECS2Endpoint) {
			h := msg.HeaderBytes()
			f := msg.AppendBodyTo(append([]byte(nil), h[:]...))
			s.mu.Lock()
			s.deliv = append(s.deliv, f)
			s.delivAt = append(s.delivAt, time.Now())
			s.mu.Unlock()
		})
		ctx, cancel := context.WithTimeout(context.Background(), 10*time.Second)
		defer cancel()
		mode := hsms.OpenWaitSelected
		if isEquip {
			mode = hsms.OpenBackground
		}
		if err := conn.Open(ctx, mode); err != nil {
			return nil, err
		}
		for i := 0; i < 2000 && conn.State() != hsms.SelectedState; i++ {
			time.Sleep(2 * time.Millisecond)
		}
		if conn.State() != hsms.SelectedState {
			return nil, fmt.Errorf("not selected")
		}
		return s, nil
	}
	eq, err := mk(true, sc.limitE, eA)
	if err != nil {
		obs.err = "equipment: " + err.Error()
		return obs
	}
	ho, err := mk(false, sc.limitH, hA)
	if err != nil {
		obs.err = "host: " + err.Error()
		_ = eq.conn.Close()
		return obs
	}
	sendAll := func(s *e2eSide, msgs []e2eMsg, wg *sync.WaitGroup) {
		defer wg.Done()
		for _, m := range msgs {
			ctx, cancel := context.WithTimeout(context.Background(), 30*time.Second)
			_, err := s.conn.SendDataMessage(ctx, m.stream, m.fn, false, m.item())
			cancel()
			s.mu.Lock()
			s.results = append(s.results, err)
			s.mu.Unlock()
			if err != nil {
				// the link is being re-established; later messages of this scenario are not offered
				for range msgs[len(s.results):] {
					s.results = append(s.results, err)
				}
				return
			}
		}
	}
	var wg sync.WaitGroup
	wg.Add(2)
	go sendAll(eq, sc.msgsE, &wg)
	go sendAll(ho, sc.msgsH, &wg)
	wg.Wait()
	time.Sleep(3*tm.t1 + 20*time.Millisecond) // a last delivery may still be in the peer's engine
	closeBoth := make(chan struct{})
	go func() { _ = eq.conn.Close(); _ = ho.conn.Close(); close(closeBoth) }()
	select {
	case <-closeBoth:
	case <-time.After(15 * time.Second):
		obs.err = "Close did not return"
	}
	obs.delivE, obs.delivH = eq.deliv, ho.deliv
	for _, r := range eq.results {
		if r == nil {
			obs.okE++
		} else {
			obs.failE++
		}
	}
	for _, r := range ho.results {
		if r == nil {
			obs.okH++
		} else {
			obs.failH++
		}
	}
	if len(ho.delivAt) > 0 {
		obs.firstDelivAtHost = ho.delivAt[0]
	}
	if len(eq.delivAt) > 0 {
		obs.firstDelivAtEq = eq.delivAt[0]
	}
	obs.sysE, obs.sysH = box.sysE, box.sysH
	obs.attempts = box.attempts
	return obs
}

func e2eImage(dev uint16, m e2eMsg, sys [4]byte) []byte {
	f := []byte{byte(dev >> 8), byte(dev), m.stream & 0x7f, m.fn, 0, 0, sys[0], sys[1], sys[2], sys[3]}
	return append(f, m.body()...)
}

func e2eModelLine(sc e2eScenario, obs e2eObs) string {
	var sb strings.Builder
	fmt.Fprintf(&sb, "secs1.line %d %d %d %s M", 0x0123, sc.limitE, sc.limitH, func() string {
		if sc.faults == "" {
			return "-"
		}
		// for the line model a shortened length byte is one more single-character corruption of the block
		return strings.ReplaceAll(sc.faults, "l", "f")
	}())
	put := func(msgs []e2eMsg, sys [][4]byte) {
		for i, m := range msgs {
			s := [4]byte{0xee, 0xee, 0xee, byte(i)} // never reached the line: placeholder
			if i < len(sys) {
				s = sys[i]
			}
			fmt.Fprintf(&sb, " %d:%d:0:%s:%s", m.stream, m.fn, hex.EncodeToString(s[:]), s1hex(m.body()))
		}
	}
	put(sc.msgsE, obs.sysE)
	sb.WriteString(" S")
	put(sc.msgsH, obs.sysH)
	return sb.String()
}

func e2eObsString(obs e2eObs) string {
	j := func(fs [][]byte) string {
		var s []string
		for _, f := range fs {
			s = append(s, hex.EncodeToString(f))
		}
		return strings.Join(s, ",")
	}
	return fmt.Sprintf("M D[%s] ok=%d fail=%d | S D[%s] ok=%d fail=%d", j(obs.delivE), obs.okE, obs.failE, j(obs.delivH), obs.okH, obs.failH)
}

// e2eModelString reduces the model's answer to the same shape.
func e2eModelString(ans string) string {
	// M D[..] OK[a,b] FAIL[c] retry=N | S D[..] OK[..] FAIL[..] retry=N | quiescent=..
	parts := strings.Split(ans, " | ")
	if len(parts) < 2 {
		return ans
	}
	one := func(p string) string {
		f := strings.Fields(p)
		if len(f) < 4 {
			return p
		}
		cnt := func(s string) int {
			in := s[strings.IndexByte(s, '[')+1 : len(s)-1]
			if in == "" {
				return 0
			}
			return strings.Count(in, ",") + 1
		}
		return fmt.Sprintf("%s %s ok=%d fail=%d", f[0], f[1], cnt(f[2]), cnt(f[3]))
	}
	return one(parts[0]) + " | " + one(parts[1])
}

func e2eScenarios(c *Ctx) []e2eScenario {
	r := c.Rng
	var out []e2eScenario
	msg := func(blocks int, i int) e2eMsg {
		n := []int{0, 3, 200}[r.IntN(3)]
		if blocks > 1 {
			n = 244*(blocks-1) + r.IntN(200)
		}
		return e2eMsg{stream: byte(1 + r.IntN(60)), fn: byte(1 + 2*r.IntN(60)), payload: bytes.Repeat([]byte{byte(0x40 + i)}, n)}
	}
	// (1) one direction, every deterministic fault kind, schedules exhaustively to length 2 over {n f t k q a} for
	//     retry limit 1 and one block; random longer ones for limits 0..3 and 1..3 blocks. A lost EOT ('o') is placed only
	//     where a possible extra retry (timer race between the receiver's NAK and the sender's re-ENQ) cannot exhaust the limit.
	kinds := "nftkqa"
	for _, fromE := range []bool{true, false} {
		for a := 0; a < len(kinds); a++ {
			for b := 0; b < len(kinds); b++ {
				sc := e2eScenario{limitE: 1, limitH: 1, faults: string([]byte{kinds[a], kinds[b]}), tag: "one-direction-exhaustive"}
				if fromE {
					sc.msgsE = []e2eMsg{msg(1, 0)}
				} else {
					sc.msgsH = []e2eMsg{msg(1, 0)}
				}
				out = append(out, sc)
			}
		}
	}
	for i := 0; i < c.Pick(40, 400); i++ {
		lim := r.IntN(4)
		sc := e2eScenario{limitE: lim, limitH: lim, tag: "one-direction-random"}
		n := 1 + r.IntN(2)
		var ms []e2eMsg
		for k := 0; k < n; k++ {
			ms = append(ms, msg(1+r.IntN(3), k))
		}
		fl := make([]byte, r.IntN(7))
		for k := range fl {
			if r.IntN(3) == 0 {
				fl[k] = 'n'
			} else {
				fl[k] = kinds[r.IntN(len(kinds))]
			}
		}
		sc.faults = string(fl)
		if lim >= 2 && r.IntN(4) == 0 {
			sc.faults = "o" + strings.ReplaceAll(sc.faults, "q", "n")
			if len(sc.faults) > 2 {
				sc.faults = sc.faults[:2]
			}
		}
		if r.IntN(2) == 0 {
			sc.msgsE = ms
		} else {
			sc.msgsH = ms
		}
		out = append(out, sc)
	}
	// (1b) a single-block message whose payload happens to contain ENQ followed by a well-formed block addressed to the
	//      receiver (think of a captured line trace inside a report), transmitted with its length byte flipped to a
	//      smaller valid value: nothing but the one real message may ever be delivered
	for _, fromE := range []bool{true, false} {
		for _, fl := range []string{"l", "ln", "ll", "lf", "nl", "kl"} {
			hdr := [10]byte{0x01, 0x23, 0x80 | 2, 41, 0x80, 0x01, 0x7a, 0x7b, 0x7c, byte(len(out))}
			if fromE {
				hdr[0] |= 0x80 // R-bit: towards the host
			}
			emb := secs1.VerifAppendTo(nil, secs1.VerifBlock{Header: hdr, Body: []byte{0x21, 0x01, 0x07}})
			pl := bytes.Repeat([]byte{0x41}, 96)
			pl = append(pl, 0x05)
			pl = append(pl, emb...)
			pl = append(pl, bytes.Repeat([]byte{0x41}, 200-len(pl))...)
			sc := e2eScenario{limitE: 3, limitH: 3, faults: fl, tag: "embedded-block-length-flip"}
			m := e2eMsg{stream: 6, fn: 11, payload: pl}
			if fromE {
				sc.msgsE = []e2eMsg{m}
			} else {
				sc.msgsH = []e2eMsg{m}
			}
			out = append(out, sc)
		}
	}
	// (1c) slow line: a five-block message whose blocks arrive 0.5 s apart with T4 = 1.5 s: every inter-block gap is
	//      within T4 although the last block arrives 2 s after the first (T4 is an INTER-block timer; after seeded
	//      changes C17b-1 / C18b-2). The send succeeds, so the message must be delivered exactly once.
	for _, fromE := range []bool{true, false} {
		sc := e2eScenario{limitE: 3, limitH: 3, tag: "slow-line-within-T4", slowENQ: 500 * time.Millisecond, t2: 3 * time.Second, t4: 1500 * time.Millisecond}
		m := e2eMsg{stream: 6, fn: 11, payload: bytes.Repeat([]byte{0x33}, 244*4+100)}
		if fromE {
			sc.msgsE = []e2eMsg{m}
		} else {
			sc.msgsH = []e2eMsg{m}
		}
		out = append(out, sc)
	}
	// (1d) a retransmission that trails the accepted original by MORE than T4 (ACK lost, then further handshake
	//      failures: k x T2 > T4 within the retry limit) is still the same block: single-block messages, so no open
	//      partial is involved and T4 has nothing to discard (after seeded change C18c-2: a duplicate record that
	//      expires after T4)
	for _, fromE := range []bool{true, false} {
		for _, fl := range []string{"aq", "aqq", "ao"} {
			sc := e2eScenario{limitE: 3, limitH: 3, faults: fl, tag: "late-retransmission-beyond-T4", t2: 600 * time.Millisecond, t4: time.Second}
			m := e2eMsg{stream: 1, fn: 1, payload: []byte{1, 2, 3}}
			if fromE {
				sc.msgsE = []e2eMsg{m, {stream: 1, fn: 3, payload: []byte{4}}}
			} else {
				sc.msgsH = []e2eMsg{m, {stream: 1, fn: 3, payload: []byte{4}}}
			}
			out = append(out, sc)
		}
	}
	// (2) contention: both ends send at once; at most two faults, none of them a lost handshake character, slave limit 3
	ck := "ftka"
	for i := 0; i < c.Pick(24, 200); i++ {
		sc := e2eScenario{limitE: 2 + r.IntN(2), limitH: 3, tag: "contention"}
		sc.msgsE = []e2eMsg{msg(1+r.IntN(2), 0)}
		sc.msgsH = []e2eMsg{msg(1+r.IntN(2), 1)}
		fl := make([]byte, r.IntN(3))
		for k := range fl {
			fl[k] = ck[r.IntN(len(ck))]
		}
		sc.faults = string(fl)
		if i < 4 {
			sc.faults = ""
		}
		out = append(out, sc)
	}
	return out
}

func c18E2E(c *Ctx) {
	scs := e2eScenarios(c)
	obs := make([]e2eObs, len(scs))
	parallelDo(len(scs), 48, func(i int) { obs[i] = runE2E(scs[i], c18Fast) })
	ask := func(i int) string {
		if c.Lean == nil {
			return ""
		}
		return e2eModelString(c.Lean.Ask(e2eModelLine(scs[i], obs[i])))
	}
	var redo []int
	for i := range scs {
		if obs[i].err != "" || (c.Lean != nil && ask(i) != e2eObsString(obs[i])) {
			if len(redo) < 12 {
				redo = append(redo, i)
			}
		}
	}
	parallelDo(len(redo), 12, func(j int) { obs[redo[j]] = runE2E(scs[redo[j]], c18Slow) })
	c.StatN("e2e-rechecked-with-wide-timers", len(redo))
	for i, sc := range scs {
		o := obs[i]
		desc := func(ms []e2eMsg) []string {
			var s []string
			for _, m := range ms {
				s = append(s, fmt.Sprintf("S%dF%d/%dblk", m.stream, m.fn, e2eBlocks(m)))
			}
			return s
		}
		replay := map[string]any{"mode": "end-to-end", "tag": sc.tag, "limitEquip": sc.limitE, "limitHost": sc.limitH, "faults": sc.faults,
			"equipSends": desc(sc.msgsE), "hostSends": desc(sc.msgsH), "observed": s1clip(e2eObsString(o), 1500)}
		c.Count(fmt.Sprintf("e2e|%d|%d|%s|%v|%v", sc.limitE, sc.limitH, sc.faults, desc(sc.msgsE), desc(sc.msgsH)), strings.Trim(sc.faults, "n") != "" || sc.tag == "contention")
		c.Stat("e2e:" + sc.tag)
		c.StatN("e2e-attempts", o.attempts)
		if i%53 == 5 {
			c.Sample(map[string]any{"op": "end-to-end", "tag": sc.tag, "faults": sc.faults, "equipSends": desc(sc.msgsE), "hostSends": desc(sc.msgsH), "observed": s1clip(e2eObsString(o), 300)})
		}
		if o.err != "" {
			c.Violate("property", "e2e-harness", o.err, replay)
			continue
		}
		// the property's own oracle
		check := func(dir string, sent []e2eMsg, sys [][4]byte, ok int, deliv [][]byte) {
			var imgs [][]byte
			for k, m := range sent {
				if k < len(sys) {
					imgs = append(imgs, e2eImage(0x0123, m, sys[k]))
				}
			}
			// deliveries must be a subsequence of the offered images (never altered, never twice, in order)
			j := 0
			for _, d := range deliv {
				for j < len(imgs) && !bytes.Equal(imgs[j], d) {
					j++
				}
				if j == len(imgs) {
					c.Violate("property", "delivered-twice-altered-or-out-of-order", fmt.Sprintf("%s: a delivered frame is not the next not-yet-delivered sent message: %s", dir, s1clip(hex.EncodeToString(d), 80)), replay)
					return
				}
				j++
			}
			// every successful send (they are the first `ok` messages: a failure ends the scenario's sends) was delivered
			for k := 0; k < ok && k < len(imgs); k++ {
				found := 0
				for _, d := range deliv {
					if bytes.Equal(d, imgs[k]) {
						found++
					}
				}
				if found != 1 {
					c.Violate("property", "successful-send-not-delivered-exactly-once", fmt.Sprintf("%s: message %d whose send returned nil was delivered %d times", dir, k, found), replay)
				}
			}
		}
		check("equipment->host", sc.msgsE, o.sysE, o.okE, o.delivH)
		check("host->equipment", sc.msgsH, o.sysH, o.okH, o.delivE)
		if sc.tag == "contention" && len(o.delivH) > 0 && len(o.delivE) > 0 && o.firstDelivAtEq.Before(o.firstDelivAtHost) {
			c.Violate("property", "contention-host-went-first", "both ends requested the line at once and the host's message arrived before the equipment's", replay)
		}
		if c.Lean != nil {
			if m := ask(i); m != e2eObsString(o) {
				c.Violate("correspondence", "end-to-end-differs-from-line-model", fmt.Sprintf("impl %s / model %s", s1clip(e2eObsString(o), 400), s1clip(m, 400)), replay)
			}
			c.Res.Traces++
		}
	}
}
