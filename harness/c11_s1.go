package main

// C11 on the SECS-I transport: a real secs1 connection (secs1.New + WithDialer / WithListener over net.Pipe,
// every conn / listener harness-owned) against the raw E4 peer of peer_life_s1.go. The line is killed at
// chosen points of the block protocol — idle, inside the library's outgoing block (every k-th byte offset),
// while it awaits ACK, right after the peer's ENQ, inside an inbound block, inside the block the host
// receives while its own send is postponed (contention), and by a peer that stops answering ENQ (the send
// exhausts its retries, the core drops the line) — followed by 0..4 failed re-dials under the five backoff configurations, both TCP roles
// and both E4 roles. Judged by the same c11Judge as HSMS-SS: re-dial gaps vs the model's sleeps, recovery +
// primary/secondary round trip, Reconnects(), no dial after Close, State() after Close, resources, model
// script and history acceptance.

import (
	"context"
	"fmt"
	"net"
	"sync"
	"time"

	"github.com/arloliu/go-secs/v2/hsms"
	"github.com/arloliu/go-secs/v2/secs1"
	"github.com/arloliu/go-secs/v2/secs2"
)

const (
	c11S1T1    = 100 * time.Millisecond
	c11S1T2    = 150 * time.Millisecond
	c11S1Retry = 2
	c11S1Dev   = 0x0123
)

func c11S1Scenarios(c *Ctx) []c11Scenario {
	var out []c11Scenario
	r := c.Rng
	nb := 0
	add := func(role string, equip bool, beh lifeS1Beh, fails int) {
		b := c11Backoffs[nb%len(c11Backoffs)]
		nb++
		out = append(out, c11Scenario{Role: role, Transport: "secs1", S1: beh, S1Equip: equip, Fails: fails, Backoff: b,
			// label for statistics and for the model script: the failing generation was Selected
			Beh: lifeBehaviour{Kind: "s1-" + beh.Kind, Cut: lifeCut{Exchange: "data"}}})
	}
	for _, role := range []string{"active", "passive"} {
		for _, equip := range []bool{false, true} {
			add(role, equip, lifeS1Beh{Kind: "idle"}, r.IntN(5))
			add(role, equip, lifeS1Beh{Kind: "awaitAck"}, r.IntN(5))
			add(role, equip, lifeS1Beh{Kind: "inboundEnq"}, r.IntN(5))
			add(role, equip, lifeS1Beh{Kind: "retryExhaust"}, r.IntN(3))
			// the library's S1F1 W <A "ABCD"> block is 1 + 10 + 6 + 2 = 19 bytes on the wire
			offs := []int{0, 1, 5, 11, 12, 18}
			if c.Thorough() {
				offs = nil
				for k := 0; k <= 18; k++ {
					offs = append(offs, k)
				}
			}
			for _, k := range offs {
				add(role, equip, lifeS1Beh{Kind: "midBlock", Off: k}, r.IntN(5))
			}
			// the peer's inbound block is 1 + 10 + 4 + 2 = 17 bytes
			inOffs := []int{0, 1, 11, 16}
			if c.Thorough() {
				inOffs = nil
				for k := 0; k <= 16; k++ {
					inOffs = append(inOffs, k)
				}
			}
			for _, k := range inOffs {
				add(role, equip, lifeS1Beh{Kind: "inboundMid", Off: k}, r.IntN(5))
				if !equip { // only the host (slave) postpones its send
					add(role, equip, lifeS1Beh{Kind: "postponed", Off: k}, r.IntN(5))
				}
			}
		}
	}
	// every failed-re-dial run length 0..4 x every backoff configuration, both roles
	for _, role := range []string{"active", "passive"} {
		for n := 0; n <= 4; n++ {
			for i := range c11Backoffs {
				nb = i
				add(role, n%2 == 0, lifeS1Beh{Kind: "midBlock", Off: 7}, n)
			}
		}
	}
	return out
}

func c11S1Options(s c11Scenario) []secs1.Option {
	opts := []secs1.Option{secs1.WithDeviceID(c11S1Dev), secs1.WithT1(c11S1T1), secs1.WithT2(c11S1T2), secs1.WithT4(2 * time.Second),
		secs1.WithRetryLimit(c11S1Retry)}
	for _, o := range []hsms.ConnOption{hsms.WithT3(1500 * time.Millisecond), hsms.WithT5(s.Backoff.T5),
		hsms.WithReconnectBackoff(s.Backoff.Initial, s.Backoff.Mult), hsms.WithCloseTimeout(3 * time.Second), hsms.WithLogger(lifeNullLogger{})} {
		opts = append(opts, secs1.WithConnectionOption(o))
	}
	if s.S1Equip {
		opts = append(opts, secs1.WithEquipment())
	} else {
		opts = append(opts, secs1.WithHost())
	}
	return opts
}

func c11RunS1Scenario(s c11Scenario, slack time.Duration) (o c11Outcome) {
	o.sc = s
	ln := &lifeNet{}
	var pmu sync.Mutex
	var peers []*lifeS1Peer
	firstPeer := make(chan *lifeS1Peer, 1)
	lastPeer := make(chan *lifeS1Peer, 1)
	mkPeer := func(conn net.Conn, beh lifeS1Beh) *lifeS1Peer {
		p := newLifeS1Peer(conn, s.S1Equip, beh)
		p.onFail = func() { ln.log("drop") }
		pmu.Lock()
		peers = append(peers, p)
		pmu.Unlock()
		return p
	}
	defer func() {
		pmu.Lock()
		for _, p := range peers {
			p.stop()
			_ = p.conn.Close()
		}
		pmu.Unlock()
		ln.waitPeers()
	}()
	lastOK := s.Fails + 1
	ln.plan = func(n int) (bool, func(net.Conn)) {
		switch {
		case n == 0:
			return true, func(c net.Conn) { p := mkPeer(c, s.S1); firstPeer <- p; p.run(c11S1Dev) }
		case n == lastOK:
			return true, func(c net.Conn) { p := mkPeer(c, lifeS1Beh{Kind: "serve"}); lastPeer <- p; p.run(c11S1Dev) }
		case n > lastOK:
			return true, func(c net.Conn) { mkPeer(c, lifeS1Beh{Kind: "serve"}).run(c11S1Dev) }
		}
		return false, nil
	}
	ln.onListen = func(n int, l *lifeListener) {
		switch {
		case n == 0:
			if c := l.deliver(); c != nil {
				p := mkPeer(c, s.S1)
				firstPeer <- p
				p.run(c11S1Dev)
			}
		case n >= lastOK:
			if c := l.deliver(); c != nil {
				p := mkPeer(c, lifeS1Beh{Kind: "serve"})
				if n == lastOK {
					lastPeer <- p
				}
				p.run(c11S1Dev)
			}
		}
	}
	opts := c11S1Options(s)
	if s.Role == "active" {
		opts = append(opts, secs1.WithActive(), secs1.WithDialer(ln.dial))
	} else {
		opts = append(opts, secs1.WithPassive(), secs1.WithListener(ln.listen))
	}
	cfg, err := secs1.NewConfig("lifepipe", 1, opts...)
	if err != nil {
		o.failNote = "config: " + err.Error()
		return
	}
	conn, err := secs1.New(cfg)
	if err != nil {
		o.failNote = "new: " + err.Error()
		return
	}
	closed := false
	defer func() {
		if !closed {
			_ = conn.Close()
		}
	}()
	ln.log("call.open.bg:1")
	if err := conn.Open(context.Background(), hsms.OpenBackground); err != nil {
		ln.log("ret.open.err:1")
		o.failNote = "open: " + err.Error()
		return
	}
	ln.log("ret.open.ok:1")
	var fp *lifeS1Peer
	select {
	case fp = <-firstPeer:
	case <-time.After(5 * time.Second):
		o.failNote = "first line never established"
		return
	}
	if !lifeWait(5*time.Second, func() bool { return conn.State() == hsms.SelectedState }) {
		o.failNote = "first generation never reached Selected"
		return
	}
	send := func(budget time.Duration) error {
		ctx, cancel := context.WithTimeout(context.Background(), budget)
		defer cancel()
		_, e := conn.SendDataMessage(ctx, 1, 1, true, secs2.A("ABCD"))
		return e
	}
	switch s.S1.Kind {
	case "midBlock", "awaitAck", "postponed":
		go func() { _ = send(3 * time.Second) }()
	case "retryExhaust":
		// the peer never answers ENQ: the send runs out of retries (RTY+1 attempts x T2) and fails; the core
		// treats the failed write as a dead line (hsms/connection_send.go: tr.Write error -> TCPDown), so
		// the line must be dropped and re-established like after any other loss
		ln.log("drop")
		t0 := time.Now()
		if e := send(5 * time.Second); e == nil {
			o.failNote = "send against a silent peer succeeded"
			return
		}
		if d := time.Since(t0); d < time.Duration(c11S1Retry+1)*c11S1T2*8/10 {
			o.failNote = fmt.Sprintf("send against a silent peer failed after %v, before %d attempts x T2 could elapse", d, c11S1Retry+1)
			return
		}
	}
	var failAt time.Time
	if s.S1.Kind == "retryExhaust" {
		failAt = time.Now()
	} else {
		select {
		case failAt = <-fp.failedAt:
		case <-time.After(6 * time.Second):
			o.failNote = "the scripted failure never happened"
			return
		}
	}
	var total time.Duration
	for k := 0; k <= s.Fails; k++ {
		total += c11SpecSleep(s.Backoff, k)
	}
	budget := s.detectBound() + total + slack + 3*time.Second
	var lp *lifeS1Peer
	select {
	case lp = <-lastPeer:
	case <-time.After(budget):
	}
	if lp != nil {
		o.recovered = lifeWait(5*time.Second, func() bool { return conn.State() == hsms.SelectedState })
	}
	atts := ln.attemptsCopy()
	o.attempts = len(atts)
	for k := 1; k < len(atts) && k <= s.Fails+1; k++ {
		if k == 1 {
			o.gaps = append(o.gaps, atts[1].At.Sub(failAt))
		} else {
			o.gaps = append(o.gaps, atts[k].At.Sub(atts[k-1].Ret))
		}
	}
	if o.recovered {
		ctx, cancel := context.WithTimeout(context.Background(), 4*time.Second)
		rsp, err := conn.SendDataMessage(ctx, 1, 13, true, secs2.A("PING"))
		cancel()
		switch {
		case err != nil:
			o.rtErr = err.Error()
		case rsp == nil:
			o.rtErr = "nil reply without error"
		case rsp.Stream() != 1 || rsp.Function() != 14:
			o.rtErr = fmt.Sprintf("reply S%dF%d, want S1F14", rsp.Stream(), rsp.Function())
		default:
			o.rtOK = true
		}
		lifeWait(time.Second, func() bool { return conn.Metrics().Reconnecting() == 0 })
	}
	o.reconn = conn.Metrics().Reconnects()
	o.reconning = conn.Metrics().Reconnecting()
	ln.log("call.close:1")
	t0 := time.Now()
	o.closeErr = conn.Close()
	o.closeDur = time.Since(t0)
	ln.log("ret.close.ok:1")
	closed = true
	before := ln.nAttempts()
	quiet := 2*s.Backoff.T5 + 50*time.Millisecond
	if quiet > 250*time.Millisecond {
		quiet = 250 * time.Millisecond
	}
	time.Sleep(quiet)
	o.afterDial = ln.nAttempts() - before
	o.stateEnd = conn.State().String()
	lifeWait(time.Second, func() bool { return len(ln.openResources()) == 0 })
	o.openRes = ln.openResources()
	o.liveCtx = ln.liveCtxs()
	o.obs = ln.observations()
	return
}
