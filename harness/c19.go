package main

// C19 — linktest drops dead links in bounded probes, never a link showing life.
//
//  1. function mode: the two pure reducers (exported under -tags verif by hsmsss/verif_hooks_linktest.go)
//     against (a) their go2lean translation and (b) the hand-written spec reducers, both evaluated by the
//     Lean driver, on an exhaustive small grid, int64 boundary values and random inputs; plus a Go-side
//     restatement of the suppression rules as the property oracle.
//  2. scripted-peer timelines: a real hsmsss connection with auto-linktest (interval ≈ 60 ms, T6 ≈ 60 ms)
//     against silent / slow-but-alive / chatty / intermittent / busy (reply outstanding) peers; the loop
//     model (`lt.run`) predicts from the scripted observations whether and at which probe the library
//     disconnects and the linktest counters; timing is asserted with wide margins only.

import (
	"context"
	"fmt"
	"math"
	"strings"
	"sync"
	"time"

	"github.com/arloliu/go-secs/v2/hsms"
	"github.com/arloliu/go-secs/v2/hsmsss"
)

func init() {
	register("C19", "reducers: grid {-1..3}^k x suppress, int64 boundaries, random; timelines: peer scripts over "+
		"{answer, ignore, life-after-probe, life-between-probes} per probe x threshold 1..3 x suppression on/off x role, "+
		"plus chatty and reply-outstanding peers; distinct = distinct reducer input tuple / scenario text; "+
		"non-trivial = a failure step where at least one of the three rule conditions holds, or a timeline with >= 1 probe", runC19)
}

func c19bit(b bool) int {
	if b {
		return 1
	}
	return 0
}

// ---------------------------------------------------------------------------------------------
// 1. reducers

type ltIn struct {
	s                bool
	rn, sa, inf, ral int64
	fails            int
}

func c19ReducerInputs(c *Ctx) []ltIn {
	var ins []ltIn
	small := []int64{-1, 0, 1, 2, 3}
	for _, s := range []bool{false, true} {
		for _, rn := range small {
			for _, sa := range small {
				for _, inf := range []int64{-1, 0, 1, 2} {
					for _, f := range []int{-1, 0, 1, 2, 5} {
						for _, ral := range small {
							ins = append(ins, ltIn{s, rn, sa, inf, ral, f})
						}
					}
				}
			}
		}
	}
	edge := []int64{math.MinInt64, math.MinInt64 + 1, -1, 0, 1, math.MaxInt64 - 1, math.MaxInt64}
	for _, s := range []bool{false, true} {
		for _, rn := range edge {
			for _, sa := range edge {
				for _, ral := range edge {
					for _, inf := range []int64{math.MinInt64, 0, 1, math.MaxInt64} {
						ins = append(ins, ltIn{s, rn, sa, inf, ral, c.Rng.IntN(4)})
					}
				}
			}
		}
	}
	r := c.Rng
	for i := 0; i < c.Pick(20000, 400000); i++ {
		// time stamps close to each other so every comparison direction is hit often
		base := r.Int64N(1 << 40)
		near := func() int64 { return base + int64(r.IntN(5)) - 2 }
		ins = append(ins, ltIn{r.IntN(2) == 0, near(), near(), int64(r.IntN(4)) - 1, near(), r.IntN(6)})
	}
	return ins
}

func c19Reducers(c *Ctx) {
	ins := c19ReducerInputs(c)
	lines := make([]string, 0, 2*len(ins))
	for _, in := range ins {
		lines = append(lines, fmt.Sprintf("lt.fstep %d %d %d %d %d %d", c19bit(in.s), in.rn, in.sa, in.inf, in.fails, in.ral))
		lines = append(lines, fmt.Sprintf("lt.recheck %d %d %d %d", c19bit(in.s), in.inf, in.rn, in.sa))
	}
	var ans []string
	if c.Lean != nil {
		ans = c.Lean.AskAll(lines)
	}
	for i, in := range ins {
		nf, nral, cred := hsmsss.VerifLinktestFailureStep(in.s, in.rn, in.sa, in.inf, in.fails, in.ral)
		re := hsmsss.VerifLinktestDisconnectRecheck(in.s, in.inf, in.rn, in.sa)
		life := in.rn > in.sa || in.inf > 0
		between := in.fails > 0 && in.rn > in.ral
		c.Count(fmt.Sprintf("%v|%d|%d|%d|%d|%d", in.s, in.rn, in.sa, in.inf, in.fails, in.ral), life || between || in.s)
		replay := map[string]any{"suppress": in.s, "recvNow": in.rn, "sentAt": in.sa, "inflight": in.inf, "fails": in.fails, "recvAtLastFail": in.ral}
		// property oracle: the suppression rules as the option's documentation states them
		switch {
		case !in.s:
			c.Stat("fstep:off")
			if cred || nf != in.fails+1 || nral != in.rn {
				c.Violate("property", "off-timeout-not-counted", fmt.Sprintf("suppression off: got (%d,%d,%v), every timeout must count", nf, nral, cred), replay)
			}
		case life:
			c.Stat("fstep:credit")
			if !cred || nf != 0 || nral != in.ral {
				c.Violate("property", "life-not-credited", fmt.Sprintf("life at evaluation time: got (%d,%d,%v), want credit (0,%d,true)", nf, nral, cred, in.ral), replay)
			}
		case between:
			c.Stat("fstep:restart")
			if cred || nf != 1 || nral != in.rn {
				c.Violate("property", "life-between-failures-not-restarting", fmt.Sprintf("got (%d,%d,%v), want (1,%d,false)", nf, nral, cred, in.rn), replay)
			}
		default:
			c.Stat("fstep:count")
			if cred || nf != in.fails+1 || nral != in.rn {
				c.Violate("property", "silent-timeout-not-counted", fmt.Sprintf("got (%d,%d,%v), want (%d,%d,false)", nf, nral, cred, in.fails+1, in.rn), replay)
			}
		}
		if wantRe := !in.s || !life; re != wantRe {
			c.Violate("property", "recheck-wrong", fmt.Sprintf("linktestDisconnectRecheck=%v, want %v", re, wantRe), replay)
		}
		if ans != nil {
			one := fmt.Sprintf("%d %d %d", nf, nral, c19bit(cred))
			if want := one + " " + one; ans[2*i] != want {
				c.Violate("correspondence", "failureStep-differs", fmt.Sprintf("Go (%s) vs translated+spec reducers (%s)", one, ans[2*i]), replay)
			}
			if want := fmt.Sprintf("%d %d", c19bit(re), c19bit(re)); ans[2*i+1] != want {
				c.Violate("correspondence", "recheck-differs", fmt.Sprintf("Go %v vs translated+spec (%s)", re, ans[2*i+1]), replay)
			}
		}
	}
	if len(ins) > 0 {
		in := ins[len(ins)/2]
		nf, nral, cred := hsmsss.VerifLinktestFailureStep(in.s, in.rn, in.sa, in.inf, in.fails, in.ral)
		c.Sample(map[string]any{"reducer_input": fmt.Sprintf("%+v", in), "result": fmt.Sprintf("%d %d %v", nf, nral, cred)})
	}
}

// ---------------------------------------------------------------------------------------------
// 2. timelines

type ltScenario struct {
	kind     string // "pattern", "chatty", "busy"
	pattern  string // per probe: a answer, i ignore, l life right after the probe, g ignore + life between probes
	active   bool
	suppress bool
	k        int
}

func (s ltScenario) text() string {
	return fmt.Sprintf("%s:%s role=%s suppress=%v k=%d", s.kind, s.pattern, map[bool]string{true: "active", false: "passive"}[s.active], s.suppress, s.k)
}

type ltOutcome struct {
	probes                       int
	disconnected                 bool
	elapsed                      time.Duration // establishing frame .. stream closed
	send, recv, errc, cred, supp uint64
	note                         string
	err                          error
}

// modelObs turns a per-probe script into the observations the loop makes (logical clock).
func ltPatternObs(pattern string) []string {
	var obs []string
	recv := int64(0)
	for i, ch := range pattern {
		sentAt := int64(100 * (i + 1))
		switch ch {
		case 'a':
			obs = append(obs, fmt.Sprintf("0 0 1 %d %d 0 0 %d", sentAt, recv, recv))
			recv = sentAt + 1
		case 'i':
			obs = append(obs, fmt.Sprintf("0 0 0 %d %d 0 0 %d", sentAt, recv, recv))
		case 'l', 'x', 'y':
			recv = sentAt + 1
			obs = append(obs, fmt.Sprintf("0 0 0 %d %d 0 0 %d", sentAt, recv, recv))
		case 'g', 'd':
			obs = append(obs, fmt.Sprintf("0 0 0 %d %d 0 0 %d", sentAt, recv, recv))
			recv = sentAt + 50
		}
	}
	return obs
}

type ltPrediction struct {
	disc                     int // -1 none
	probes, ok, timeouts, cr int
	acts                     []string
}

func ltPredict(c *Ctx, s ltScenario) (ltPrediction, bool) {
	p := ltPrediction{disc: -1}
	if c.Lean == nil || s.kind != "pattern" {
		return p, false
	}
	line := fmt.Sprintf("lt.run %d %d 0 0 %s", c19bit(s.suppress), s.k, strings.Join(ltPatternObs(s.pattern), " "))
	f := strings.Fields(c.Lean.Ask(line))
	if len(f) < 3 {
		return p, false
	}
	if f[2] != "-" {
		fmt.Sscanf(f[2], "%d", &p.disc)
	}
	p.acts = f[3:]
	for _, a := range p.acts {
		switch a {
		case "ok":
			p.probes++
			p.ok++
		case "counted", "disconnect":
			p.probes++
			p.timeouts++
		case "credited", "recheck-credited":
			p.probes++
			p.timeouts++
			p.cr++
		}
	}
	return p, true
}

func ltRun(s ltScenario, scale int) ltOutcome {
	var out ltOutcome
	interval := time.Duration(60*scale) * time.Millisecond
	t6 := time.Duration(60*scale) * time.Millisecond
	ep, err := NewEndpoint(s.active, []hsms.ConnOption{
		hsms.WithLinktestInterval(interval), hsms.WithT6(t6), hsms.WithLinktestFailThreshold(s.k),
		hsms.WithLinktestSuppression(s.suppress), hsms.WithT3(30 * time.Second),
	})
	if err != nil {
		out.err = err
		return out
	}
	defer ep.Shutdown()
	if err := ep.Open(); err != nil {
		out.err = err
		return out
	}
	p, t0, err := ep.EstablishSelected(5 * time.Second)
	if err != nil {
		out.err = err
		return out
	}
	defer p.Close()
	m := ep.Conn.ControlMetrics()
	life := mkFrame(0xFFFF, 1, 1, 0, 0, sysOf(0x55000000), nil) // S1F1 without W: delivered, needs no reply
	snapshot := func() {
		out.send, out.recv, out.errc, out.cred, out.supp = m.LinktestSendCount(), m.LinktestRecvCount(), m.LinktestErrCount(), m.LinktestCreditedCount(), m.LinktestSuppressedCount()
	}
	cycle := interval + t6

	switch s.kind {
	case "pattern":
		n := len(s.pattern)
		for out.probes < n {
			f, err := p.Recv(time.Duration(s.k+4) * cycle * 2)
			if err == errPeerClosed {
				out.disconnected = true
				break
			}
			if err != nil {
				out.note = "no probe arrived"
				break
			}
			if f.SType() != 5 {
				continue
			}
			act := s.pattern[out.probes]
			out.probes++
			switch act {
			case 'a':
				_ = p.Send(mkFrame(0xFFFF, 0, 0, 0, 6, f.Sys(), nil))
			case 'l':
				_ = p.Send(life)
			case 'x':
				// life shown only through a frame the library REJECTS (undefined SType): still a complete inbound
				// frame, i.e. receive activity in the sense of the suppression rules (after seeded change C19b-2)
				_ = p.Send(mkFrame(0xFFFF, 0, 0, 0, 10, sysOf(0x56000000+uint32(out.probes)), nil))
			case 'y':
				// ... or an unsupported presentation type
				_ = p.Send(mkFrame(0xFFFF, 0, 0, 1, 0, sysOf(0x57000000+uint32(out.probes)), nil))
			case 'g':
				go func() {
					time.Sleep(t6 + interval/2)
					_ = p.Send(life)
				}()
			case 'd':
				// slow but alive: the probe IS answered, only later than T6 — by then the transaction is closed,
				// the late Linktest.rsp is an orphan (answered with Reject.req), but it is a received frame and
				// therefore life between probe timeouts (added after seeded change C19a-2 was missed)
				sys := f.Sys()
				go func() {
					time.Sleep(t6 + interval/2)
					_ = p.Send(mkFrame(0xFFFF, 0, 0, 0, 6, sys, nil))
				}()
			}
		}
		if !out.disconnected {
			// all scripted probes seen: wait for the last one's evaluation, or for the stream to close
			deadline := time.Now().Add(t6 + 2*cycle)
			for time.Now().Before(deadline) {
				if p.IsClosed() {
					out.disconnected = true
					break
				}
				if m.LinktestErrCount()+m.LinktestRecvCount() >= uint64(n) {
					break
				}
				time.Sleep(time.Millisecond)
			}
			snapshot()
			if !out.disconnected {
				// a disconnect decided by the last scripted probe shows up right after its evaluation
				if closed, _ := p.WaitClosed(interval / 3); closed {
					out.disconnected = true
				}
			}
		}
		if out.disconnected {
			_, at := p.WaitClosed(time.Second)
			out.elapsed = at.Sub(t0)
			snapshot()
		}
	case "chatty":
		// a frame every interval/4 for 8 intervals; probes are ignored
		stop := time.Now().Add(8 * interval)
		var wg sync.WaitGroup
		wg.Add(1)
		go func() {
			defer wg.Done()
			for time.Now().Before(stop) && !p.IsClosed() {
				if p.Send(life) != nil {
					return
				}
				time.Sleep(interval / 4)
			}
		}()
		for time.Now().Before(stop) {
			f, err := p.Recv(time.Until(stop))
			if err == errPeerClosed {
				out.disconnected = true
				break
			}
			if err == nil && f.SType() == 5 {
				out.probes++
			}
		}
		wg.Wait()
		if out.disconnected {
			_, at := p.WaitClosed(time.Second)
			out.elapsed = at.Sub(t0)
		}
		snapshot()
	case "busy":
		// the application has a W-bit primary outstanding for 6 intervals; the peer answers probes (if any)
		res := make(chan error, 1)
		go func() {
			ctx, cancel := context.WithTimeout(context.Background(), 20*time.Second)
			defer cancel()
			_, err := ep.Conn.SendDataMessage(ctx, 1, 1, true, nil)
			res <- err
		}()
		var primary *PFrame
		hold := time.Now().Add(6*interval + cycle)
		for time.Now().Before(hold) {
			f, err := p.Recv(time.Until(hold))
			if err == errPeerClosed {
				out.disconnected = true
				break
			}
			if err != nil {
				break
			}
			switch f.SType() {
			case 0:
				ff := f
				primary = &ff
				hold = time.Now().Add(6 * interval)
			case 5:
				out.probes++
				_ = p.Send(mkFrame(0xFFFF, 0, 0, 0, 6, f.Sys(), nil))
			}
		}
		snapshot()
		if primary == nil {
			out.note = "primary never reached the peer"
		} else {
			_ = p.Send(mkFrame(primary.Session(), primary.B2()&0x7f, primary.B3()+1, 0, 0, primary.Sys(), nil))
			select {
			case err := <-res:
				if err != nil {
					out.note = "send failed: " + err.Error()
				}
			case <-time.After(3 * time.Second):
				out.note = "reply not delivered to the sender"
			}
		}
	}
	return out
}

// ltJudge evaluates one outcome: property oracle first (independent of the model), then the model's prediction.
// It returns a list of (kind, what, detail).
func ltJudge(s ltScenario, o ltOutcome, pred ltPrediction, havePred bool, scale int) [][3]string {
	var bad [][3]string
	add := func(kind, what, detail string) { bad = append(bad, [3]string{kind, what, detail}) }
	cycle := time.Duration(120*scale) * time.Millisecond
	if o.err != nil {
		add("correspondence", "timeline-setup-failed", o.err.Error())
		return bad
	}
	switch s.kind {
	case "pattern":
		// oracle, from the property text
		onlyIgnored := strings.Trim(s.pattern, "i") == ""
		if onlyIgnored && len(s.pattern) >= s.k {
			if !o.disconnected {
				add("property", "dead-link-not-dropped", fmt.Sprintf("silent peer, threshold %d: still connected after %d unanswered probes", s.k, o.probes))
			} else {
				if o.probes != s.k {
					add("property", "dead-link-probe-count", fmt.Sprintf("silent peer dropped after %d probes, want exactly %d", o.probes, s.k))
				}
				lo, hi := time.Duration(s.k)*cycle, time.Duration(s.k)*cycle+3*cycle+time.Second
				if o.elapsed < lo-5*time.Millisecond || o.elapsed > hi {
					add("property", "dead-link-window", fmt.Sprintf("dropped after %v, want within [%v, %v]", o.elapsed, lo, hi))
				}
			}
		}
		if !strings.Contains(s.pattern, "i") && !strings.Contains(s.pattern, "g") && !strings.Contains(s.pattern, "d") && s.suppress && o.disconnected {
			add("property", "live-link-dropped", "peer answered or showed life after every probe, yet the linktest disconnected it")
		}
		if s.suppress && s.k >= 2 && strings.Trim(s.pattern, "gladxy") == "" && o.disconnected {
			add("property", "live-link-dropped", "every probe timeout was preceded by life, yet the linktest disconnected (threshold >= 2)")
		}
		// oracle for scripts without life frames (or with suppression off, where life is irrelevant): the link is
		// dropped exactly at the probe completing the first run of k consecutive unanswered probes
		if !s.suppress || strings.Trim(s.pattern, "ai") == "" {
			want, run := -1, 0
			for i := 0; i < len(s.pattern) && want < 0; i++ {
				if s.pattern[i] == 'a' {
					run = 0
				} else if run++; run >= s.k {
					want = i
				}
			}
			switch {
			case want < 0 && o.disconnected:
				add("property", "premature-disconnect", fmt.Sprintf("dropped after %d probes although no %d consecutive probes went unanswered", o.probes, s.k))
			case want >= 0 && !o.disconnected:
				add("property", "dead-link-not-dropped", fmt.Sprintf("%d consecutive probes went unanswered (threshold %d) but the link was kept", s.k, s.k))
			case want >= 0 && o.probes != want+1:
				add("property", "disconnect-at-wrong-probe", fmt.Sprintf("dropped after %d probes, the %d-th consecutive timeout is probe %d", o.probes, s.k, want+1))
			}
		}
		if havePred {
			if (pred.disc >= 0) != o.disconnected {
				add("correspondence", "disconnect-differs", fmt.Sprintf("model predicts disconnect index %d, implementation disconnected=%v after %d probes", pred.disc, o.disconnected, o.probes))
			} else if o.disconnected && o.probes != pred.disc+1 {
				add("correspondence", "disconnect-probe-differs", fmt.Sprintf("model: at probe %d, implementation: after %d probes", pred.disc+1, o.probes))
			}
			// counters for the evaluated probes (a further probe may already be out when not disconnected)
			evaluated := int(o.errc + o.recv)
			if evaluated == pred.probes {
				if int(o.errc) != pred.timeouts || int(o.recv) != pred.ok || int(o.cred) != pred.cr {
					add("correspondence", "linktest-counters-differ", fmt.Sprintf("model acts %v => timeouts %d ok %d credited %d; implementation err %d recv %d credited %d",
						pred.acts, pred.timeouts, pred.ok, pred.cr, o.errc, o.recv, o.cred))
				}
				if int(o.send) != pred.probes && !(int(o.send) == pred.probes+1 && !o.disconnected) {
					add("correspondence", "linktest-send-count-differs", fmt.Sprintf("model %d probes, LinktestSendCount %d", pred.probes, o.send))
				}
			} else {
				add("correspondence", "linktest-evaluations-differ", fmt.Sprintf("model evaluates %d probes, implementation evaluated %d", pred.probes, evaluated))
			}
		}
	case "chatty":
		if s.suppress {
			if o.disconnected {
				add("property", "live-link-dropped", "chatty peer was disconnected by the linktest under suppression")
			}
			if o.probes > 2 {
				add("property", "probe-while-active", fmt.Sprintf("%d probes were sent although a frame arrived every quarter interval", o.probes))
			}
			if o.supp < 3 {
				add("property", "probe-while-active", fmt.Sprintf("only %d wake-ups were suppressed over 8 busy intervals", o.supp))
			}
		} else {
			if !o.disconnected {
				add("property", "off-timeout-not-counted", "suppression off: unanswered probes on a chatty line must still disconnect")
			} else if o.probes != s.k || o.send != uint64(s.k) || o.cred != 0 {
				add("property", "off-probe-count", fmt.Sprintf("suppression off: dropped after %d probes (send %d, credited %d), want exactly %d", o.probes, o.send, o.cred, s.k))
			}
		}
	case "busy":
		if o.note != "" {
			add("correspondence", "busy-timeline-broken", o.note)
		}
		if o.disconnected {
			add("property", "live-link-dropped", "link dropped while a reply was outstanding and probes were answered")
		}
		if s.suppress {
			if o.probes > 1 {
				add("property", "probe-while-inflight", fmt.Sprintf("%d probes sent while a data reply was outstanding", o.probes))
			}
			if o.supp < 3 {
				add("property", "probe-while-inflight", fmt.Sprintf("only %d wake-ups suppressed over 6 intervals with a reply outstanding", o.supp))
			}
		} else if o.probes < 3 {
			add("property", "off-not-probing", fmt.Sprintf("suppression off: only %d probes in 6 intervals", o.probes))
		}
	}
	return bad
}

func c19Scenarios(c *Ctx) []ltScenario {
	var ss []ltScenario
	roles := []bool{false, true}
	for _, act := range roles {
		for _, sup := range []bool{true, false} {
			for k := 1; k <= 3; k++ {
				ss = append(ss, ltScenario{"pattern", strings.Repeat("i", k+1), act, sup, k}) // silent
			}
			ss = append(ss, ltScenario{"pattern", "llllll", act, sup, 2})  // slow but alive
			ss = append(ss, ltScenario{"pattern", "gggggg", act, sup, 2})  // life between probes
			ss = append(ss, ltScenario{"pattern", "dddddd", act, sup, 2})  // every probe answered, but later than T6
			ss = append(ss, ltScenario{"pattern", "iaiaiia", act, sup, 2}) // intermittent
			ss = append(ss, ltScenario{"pattern", "xxxxxx", act, sup, 2})  // alive, but every frame it sends is one the library rejects
			ss = append(ss, ltScenario{"pattern", "yxyxyx", act, sup, 3})
			ss = append(ss, ltScenario{"chatty", "", act, sup, 2})
			ss = append(ss, ltScenario{"busy", "", act, sup, 3})
		}
	}
	ss = append(ss, ltScenario{"pattern", "llll", false, true, 1}, ltScenario{"pattern", "aaaa", true, true, 1},
		ltScenario{"pattern", "iilii", false, true, 3}, ltScenario{"pattern", "iigii", true, true, 3})
	alpha := "ailgxy"
	for i := 0; i < c.Pick(10, 120); i++ {
		n := 2 + c.Rng.IntN(6)
		var b strings.Builder
		for j := 0; j < n; j++ {
			b.WriteByte(alpha[c.Rng.IntN(len(alpha))])
		}
		ss = append(ss, ltScenario{"pattern", b.String(), c.Rng.IntN(2) == 0, c.Rng.IntN(3) != 0, 1 + c.Rng.IntN(3)})
	}
	return ss
}

func c19Timelines(c *Ctx) {
	ss := c19Scenarios(c)
	type job struct {
		s    ltScenario
		pred ltPrediction
		have bool
	}
	jobs := make(chan job)
	var wg sync.WaitGroup
	for w := 0; w < 6; w++ {
		wg.Add(1)
		go func() {
			defer wg.Done()
			for j := range jobs {
				var bad [][3]string
				var o ltOutcome
				// a timing glitch on a loaded machine must not raise an alarm: retry with stretched timers
				for attempt, scale := 0, 1; attempt < 3; attempt, scale = attempt+1, scale*3 {
					o = ltRun(j.s, scale)
					bad = ltJudge(j.s, o, j.pred, j.have, scale)
					if len(bad) == 0 {
						break
					}
					c.Stat("timeline:retry")
				}
				c.Count(j.s.text(), o.probes > 0)
				c.Stat("timeline:" + j.s.kind)
				if o.disconnected {
					c.Stat("timeline:disconnected")
				} else {
					c.Stat("timeline:kept")
				}
				c.Sample(map[string]any{"timeline": j.s.text(), "probes": o.probes, "disconnected": o.disconnected,
					"elapsed_ms": o.elapsed.Milliseconds(), "model_acts": strings.Join(j.pred.acts, ","),
					"counters": fmt.Sprintf("send %d recv %d err %d credited %d suppressed %d", o.send, o.recv, o.errc, o.cred, o.supp)})
				for _, b := range bad {
					c.Violate(b[0], b[1], j.s.text()+": "+b[2], map[string]any{"scenario": j.s.text(), "kind": j.s.kind, "pattern": j.s.pattern,
						"active": j.s.active, "suppress": j.s.suppress, "threshold": j.s.k, "model_acts": j.pred.acts})
				}
				if j.have {
					c.mu.Lock()
					c.Res.Traces++
					c.mu.Unlock()
				}
			}
		}()
	}
	for _, s := range ss {
		pred, have := ltPredict(c, s)
		jobs <- job{s, pred, have}
	}
	close(jobs)
	wg.Wait()
}

func runC19(c *Ctx) {
	c19Reducers(c)
	c19Loop(c)
	c19Timelines(c)
	c19SlowHandler(c) // a frame that arrived counts as life even while its handler is still running (c19_retune.go)
	c19Retune(c)      // T6 raised / lowered on the live connection (c19_retune.go)
	c19WriteFail(c)   // probes / dead-link drop after a data send whose transport write failed (c19_writefail.go)
}
