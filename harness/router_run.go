package main

// Scenario runner shared by C06 / C20 / C09: N concurrent senders on a REAL hsmsss connection against the
// scripted peer of peer_router.go; everything observable is recorded into an rHistory.

import (
	"context"
	"errors"
	"fmt"
	"math/rand/v2"
	"reflect"
	"sync"
	"sync/atomic"
	"time"

	"github.com/arloliu/go-secs/v2/hsms"
	"github.com/arloliu/go-secs/v2/hsmsss"
	"github.com/arloliu/go-secs/v2/secs2"
)

// what the peer does when it sees sender i's primary
const (
	pkReply       = iota // the matching secondary
	pkReplyHeld          // the matching secondary, released later in random order (permuted / delayed)
	pkDup                // the matching secondary twice
	pkDrop               // nothing: T3
	pkReject             // Reject.req with the same system bytes
	pkUnsol              // an unsolicited secondary (system bytes nobody uses), then the reply
	pkPrimOdd            // a peer PRIMARY (odd function, no W) reusing the system bytes, then the reply
	pkPrimW              // a peer PRIMARY (even function, W set) reusing the system bytes, then the reply
	pkPrimOddW           // a peer PRIMARY (odd function, W set) reusing the system bytes, then the reply
	pkCtrl               // a control response (Select/Deselect/Linktest.rsp) reusing the system bytes, then the reply
	pkCancel             // nothing; the caller's ctx is cancelled once the primary is on the wire
	pkCancelLate         // caller cancels, then the reply arrives anyway (late)
	pkBad                // a frame with an unsupported PType reusing the system bytes, then the reply
	pkOtherFn            // a secondary with the same system bytes but another stream/function (still the reply by E37)
	pkF0                 // SxF0 abort secondary
	pkDropLate           // nothing until T3 fired, then the (late) reply
	pkNone               // (ff / async senders) nothing
	pkEcho               // (ff / async senders) an unsolicited secondary with their system bytes
	pkForeign            // data frames of a FOREIGN session (a primary and a secondary reusing the system bytes), then the reply
	pkForeignS9F1        // an S9F1 of a foreign session (exempt from session validation: delivered), then the reply
	pkKinds
)

var pkNames = [...]string{"reply", "reply-held", "dup", "drop", "reject", "unsolicited", "primary-odd", "primary-W", "primary-odd-W",
	"ctrl-collide", "cancel", "cancel-late", "bad-ptype", "other-fn", "f0-abort", "drop-late", "none", "echo", "foreign-session", "foreign-s9f1"}

type rSenderPlan struct {
	Kind   string `json:"kind"` // s f a
	Peer   int    `json:"peer"`
	PeerS  string `json:"peer_name"`
	Arg    byte   `json:"arg"`   // reject reason / control SType
	Delay  int    `json:"delay"` // start jitter, microseconds
	Wave   int    `json:"wave"`  // 0: first wave; 1: started after the drop (C09/C20)
	Stream byte   `json:"stream"`
	Fn     byte   `json:"fn"`
}

type rSpec struct {
	Name     string        `json:"name"`
	Seed     uint64        `json:"seed"`
	Handlers int           `json:"handlers"`
	T3       time.Duration `json:"t3"`
	Plans    []rSenderPlan `json:"plans"`
	// drop control (generation 0 only)
	DropAfter       int           `json:"drop_after"`       // >0: the peer closes generation 0 after it has seen this many data primaries
	DropMode        string        `json:"drop_mode"`        // "" | await (after replies are withheld) | stall (mid-write) | queued
	Reconnect       bool          `json:"reconnect"`        // wait for generation 1 to select and run wave 1 there
	Deselect        bool          `json:"deselect"`         // sequential mode: the peer deselects before the calls of wave 3 and reselects after them
	FailDials       int           `json:"fail_dials"`       // after the drop, this many dial attempts fail before one succeeds (reconnect loop keeps running)
	Seq             bool          `json:"seq"`              // run the calls one after the other with a counter snapshot after each (per-outcome deltas)
	ValidateSession bool          `json:"validate_session"` // hsms.WithSessionIDValidation(true)
	Equip           bool          `json:"equip,omitempty"`  // equipment role: a T3 expiry also sends S9F9 (one more data frame on the wire)
	Linktest        time.Duration `json:"linktest"`         // >0: auto-linktest enabled with this interval (the peer answers every Linktest.req)
	Mirror          string        `json:"mirror"`           // "linktest" | "select": the peer first answers that control request with a DATA secondary reusing its system bytes
	// cold open: the connection is opened with OpenBackground while the peer is unreachable — the first ColdDials (at least 2)
	// dial attempts are refused by the harness-owned dialer (the first by Open itself, the others by the reconnect loop Open
	// starts WITHOUT passing through the NotConnected reaction), a counter snapshot is taken while the loop retries, then the
	// peer appears (or, CloseCold, the connection is closed while still retrying)
	ColdDials int  `json:"cold_dials,omitempty"`
	CloseCold bool `json:"close_cold,omitempty"`
}

type rRun struct {
	spec        *rSpec
	peer        *rPeer
	conn        hsmsss.Connection
	core        hsms.Connection
	hist        *rHistory
	mu          sync.Mutex
	cancels     []context.CancelFunc
	arrive      chan rFrame
	rng         *rand.Rand
	notes       []string
	stalled     chan struct{}
	failedDials atomic.Int64
	lateWG      sync.WaitGroup // peer goroutines that answer after T3
}

func rCore(c hsmsss.Connection) hsms.Connection {
	v := reflect.ValueOf(c)
	if v.Kind() == reflect.Pointer {
		v = v.Elem()
	}
	f := v.FieldByName("Connection")
	if f.IsValid() {
		if cc, ok := f.Interface().(hsms.Connection); ok {
			return cc
		}
	}
	return c
}

func rReadMetrics(c hsms.Connection) rMetrics {
	m := c.Metrics()
	return rMetrics{Sent: m.DataMsgSendCount(), Recv: m.DataMsgRecvCount(), Inflight: m.DataMsgInflightCount(), Err: m.DataMsgErrCount(),
		Drop: m.DataMsgDropNotSelectedCount(), AsyncEr: m.AsyncSendErrCount(), Retry: m.Reconnecting()}
}

var rSnapCtr atomic.Uint32

// snap takes a counter snapshot at a point where no send call is running: the scripted peer is held quiet and a
// barrier makes sure everything it wrote before has been dispatched.
func (r *rRun) snap(label string) {
	r.peer.quiet.Lock()
	defer r.peer.quiet.Unlock()
	if g := r.peer.last(); g != nil && !g.closed.Load() && label != "closed" {
		select {
		case <-g.selected:
			r.peer.barrier(g, 0x7f000000+rSnapCtr.Add(1), 3*time.Second)
		default:
		}
	}
	m := rReadMetrics(r.conn)
	r.mu.Lock()
	r.hist.Snaps = append(r.hist.Snaps, rSnap{Stamp: rStamp(), M: m, Label: label})
	r.mu.Unlock()
}

func (r *rRun) note(format string, a ...any) {
	r.mu.Lock()
	r.notes = append(r.notes, fmt.Sprintf(format, a...))
	r.mu.Unlock()
}

// respond is the peer's script: one goroutine per generation consuming primaries in arrival order.
func (r *rRun) respond(g *rGen, arrive <-chan rFrame, done <-chan struct{}) {
	type held struct {
		f func()
	}
	var hold []held
	seen := 0
	dropping := false // the drop point was reached: the peer says nothing more on this generation
	release := func(all bool) {
		for len(hold) > 0 && (all || r.rng.IntN(3) == 0) {
			k := r.rng.IntN(len(hold))
			h := hold[k]
			hold = append(hold[:k], hold[k+1:]...)
			h.f()
		}
	}
	for {
		var f rFrame
		select {
		case f = <-arrive:
		case <-done:
			release(true)
			return
		case <-time.After(300 * time.Microsecond):
			release(false)
			continue
		}
		if g.closed.Load() || dropping {
			continue
		}
		i := int(f.Tag)
		if i < 0 || i >= len(r.spec.Plans) {
			continue
		}
		seen++
		pl := r.spec.Plans[i]
		sb, st, fn, sess := f.SB, f.Stream(), f.Fn(), f.Session
		reply := func() { r.peer.sendData(g, st, fn+1, false, sb, sess) }
		switch pl.Peer {
		case pkReply:
			reply()
		case pkReplyHeld:
			hold = append(hold, held{reply})
		case pkDup:
			reply()
			if r.rng.IntN(2) == 0 {
				reply()
			} else {
				hold = append(hold, held{reply})
			}
		case pkDrop, pkNone:
		case pkDropLate:
			t3 := r.spec.T3
			r.lateWG.Add(1)
			go func() {
				defer r.lateWG.Done()
				time.Sleep(t3 + t3/2)
				if !g.closed.Load() {
					reply()
				}
			}()
		case pkReject:
			r.peer.sendReject(g, 0, pl.Arg, sb)
		case pkUnsol:
			r.peer.sendData(g, st, fn+1, false, 0x80000000|sb, sess)
			hold = append(hold, held{reply})
		case pkPrimOdd:
			r.peer.sendData(g, st, fn|1, false, sb, sess)
			hold = append(hold, held{reply})
		case pkPrimW:
			r.peer.sendData(g, st, (fn+1)&^1, true, sb, sess)
			hold = append(hold, held{reply})
		case pkPrimOddW:
			r.peer.sendData(g, st, fn|1, true, sb, sess)
			reply()
		case pkCtrl:
			r.peer.sendCtrl(g, pl.Arg, 0, sb, 0xFFFF)
			hold = append(hold, held{reply})
		case pkCancel, pkCancelLate:
			r.mu.Lock()
			cf := r.cancels[i]
			r.mu.Unlock()
			if cf != nil {
				cf()
			}
			if pl.Peer == pkCancelLate {
				hold = append(hold, held{reply})
			}
		case pkBad:
			r.peer.send(g, rFrame{Session: sess, B2: st, B3: fn + 1, PType: 1, SType: 0, SB: sb, Tag: -1}, []byte{})
			hold = append(hold, held{reply})
		case pkOtherFn:
			r.peer.sendData(g, (st+1)&0x7f, fn+3, false, sb, sess)
		case pkF0:
			r.peer.sendData(g, st, 0, false, sb, sess)
		case pkForeign:
			r.peer.sendData(g, st, fn|1, r.rng.IntN(2) == 0, 0x40000000|sb, sess^0x5a5a)
			r.peer.sendData(g, st, fn+1, false, sb, sess^0x1111)
			hold = append(hold, held{reply})
		case pkForeignS9F1:
			r.peer.sendData(g, 9, 1, false, 0x40000000|sb, sess^0x2222)
			hold = append(hold, held{reply})
		case pkEcho:
			r.peer.sendData(g, st, fn+1, false, sb, sess)
		}
		release(r.spec.Seq)
		if g.id == 0 && r.spec.DropAfter > 0 && seen == r.spec.DropAfter {
			dropping = true
			if r.spec.DropMode == "await" {
				hold = nil // withheld replies die with the generation
			} else {
				release(true)
			}
			// everything the peer said so far has been dispatched (while Selected) before the drop begins
			r.peer.barrier(g, 0x7fef0000, 3*time.Second)
			switch r.spec.DropMode {
			case "queued": // stop reading: writes pile up behind writeMu / in the async queue; the runner closes later
				g.stall()
				close(r.stalled)
			case "stall": // the NEXT frame is taken only partially, then the peer stops reading and closes (mid-write drop)
				g.stallAt.Store(7)
				go func() {
					time.Sleep(3 * time.Millisecond)
					g.closeGen()
				}()
			default:
				g.closeGen()
			}
		}
	}
}

// call performs sender i's send call and records its result.
func (r *rRun) call(conn hsmsss.Connection, i int) {
	pl := r.spec.Plans[i]
	ctx, cancel := context.WithCancel(context.Background())
	r.mu.Lock()
	r.cancels[i] = cancel
	r.mu.Unlock()
	defer cancel()
	if pl.Delay > 0 {
		time.Sleep(time.Duration(pl.Delay) * time.Microsecond)
	}
	res := rCallResult{Idx: i, Kind: pl.Kind}
	item := secs2.NewUintItem(4, uint32(i))
	res.StartT = time.Now()
	res.Start = rStamp()
	switch pl.Kind {
	case "s":
		reply, err := conn.SendDataMessage(ctx, pl.Stream, pl.Fn, true, item)
		res.End = rStamp()
		res.EndT = time.Now()
		rClassify(reply, err, &res)
	case "f":
		reply, err := conn.SendDataMessage(ctx, pl.Stream, pl.Fn, false, item)
		res.End = rStamp()
		res.EndT = time.Now()
		rClassify(reply, err, &res)
		if res.Outcome == "nilnil" {
			res.Outcome = "sent"
		}
	case "a":
		err := conn.SendDataMessageAsync(ctx, pl.Stream, pl.Fn, false, item)
		res.End = rStamp()
		res.EndT = time.Now()
		rClassify(nil, err, &res)
		if res.Outcome == "nilnil" {
			res.Outcome = "sent"
		}
	}
	res.Cancel = pl.Peer == pkCancel || pl.Peer == pkCancelLate
	r.mu.Lock()
	r.hist.Calls[i] = res
	r.mu.Unlock()
}

func runWaveOnly(r *rRun, conn hsmsss.Connection, i int) {
	fin := make(chan struct{})
	go func() { r.call(conn, i); close(fin) }()
	select {
	case <-fin:
	case <-time.After(30 * time.Second):
		r.note("HANG: call %d did not return within 30 s", i)
	}
}

// runScenario executes spec once and returns the recorded history (nil + reason when the scenario could not start).
func runScenario(spec *rSpec) (*rHistory, []string, string) {
	r := &rRun{spec: spec, peer: newRPeer(), hist: &rHistory{NSenders: len(spec.Plans), NHandlers: spec.Handlers, ValidateSession: spec.ValidateSession},
		rng: rand.New(rand.NewPCG(spec.Seed, 0x5151)), stalled: make(chan struct{})}
	n := len(spec.Plans)
	r.cancels = make([]context.CancelFunc, n)
	r.hist.Calls = make([]rCallResult, n)
	var coldAttempts, coldRefused atomic.Int64
	var coldHold atomic.Bool
	coldHold.Store(spec.ColdDials > 0)
	{
		r.peer.dialHook = func(gen int) error {
			if gen >= 1 && r.conn != nil {
				// a re-dial is made by the reconnect loop: the gauge must read >= 1 on that very goroutine
				if v := r.conn.Metrics().Reconnecting(); v < 1 {
					r.note("RETRY-GAUGE-NOT-POSITIVE: Reconnecting() = %d inside a reconnect dial", v)
				} else if v > 1 {
					r.note("RETRY-GAUGE-ABOVE-LIVE-LOOPS: Reconnecting() = %d inside a reconnect dial (one reconnect loop is running)", v)
				}
			}
			if gen == 0 && spec.ColdDials > 0 {
				k := coldAttempts.Add(1)
				if k >= 2 && r.conn != nil {
					// the first attempt is Open's own; every later one is made by the reconnect loop Open started
					if v := r.conn.Metrics().Reconnecting(); v < 1 {
						r.note("RETRY-GAUGE-NOT-POSITIVE: Reconnecting() = %d inside dial attempt %d of a cold open (made by the reconnect loop)", v, k)
					} else if v > 1 {
						r.note("RETRY-GAUGE-ABOVE-LIVE-LOOPS: Reconnecting() = %d inside dial attempt %d of a cold open (one reconnect loop is running)", v, k)
					}
				}
				if coldHold.Load() {
					coldRefused.Add(1)
					st := rStamp()
					r.mu.Lock()
					r.hist.FailedDials = append(r.hist.FailedDials, st)
					r.mu.Unlock()
					return errors.New("harness: dial refused (peer not up yet)")
				}
				return nil
			}
			if gen >= 1 && int(r.failedDials.Load()) < spec.FailDials {
				r.failedDials.Add(1)
				st := rStamp()
				r.mu.Lock()
				r.hist.FailedDials = append(r.hist.FailedDials, st)
				r.mu.Unlock()
				return errors.New("harness: dial refused")
			}
			return nil
		}
	}
	r.peer.mirrorLinktest.Store(spec.Mirror == "linktest")
	r.peer.mirrorSelect.Store(spec.Mirror == "select")
	conn, err := rNewConn(r.peer, rConnOpts{T3: spec.T3, Linktest: spec.Linktest, ValidateSession: spec.ValidateSession, Equip: spec.Equip})
	if err != nil {
		return nil, nil, "config: " + err.Error()
	}
	r.conn, r.core = conn, rCore(conn)
	var hmu sync.Mutex
	for hi := 0; hi < spec.Handlers; hi++ {
		hi := hi
		conn.AddDataMessageHandler(func(msg *hsms.DataMessage, _ hsms.SECS2Endpoint) {
			sbA := msg.SystemBytes()
			d := rHDeliv{Handler: hi, Tag: rParseTag(msg.AppendBodyTo(nil)), SB: uint32(sbA[0])<<24 | uint32(sbA[1])<<16 | uint32(sbA[2])<<8 | uint32(sbA[3]),
				Fn: msg.Function(), W: msg.WaitBit()}
			d.Stamp = rStamp()
			hmu.Lock()
			r.hist.Handled = append(r.hist.Handled, d)
			hmu.Unlock()
		})
	}
	// per-generation responders
	var respMu sync.Mutex
	arrivals := map[int]chan rFrame{}
	respDone := make(chan struct{})
	var respWG sync.WaitGroup
	respClosed := false
	r.peer.onFrame = func(g *rGen, f rFrame) {
		if !f.IsData() || f.Tag < 0 {
			return
		}
		respMu.Lock()
		if respClosed {
			respMu.Unlock()
			return
		}
		ch, ok := arrivals[g.id]
		if !ok {
			ch = make(chan rFrame, 4096)
			arrivals[g.id] = ch
			respWG.Add(1)
			go func() { defer respWG.Done(); r.respond(g, ch, respDone) }()
		}
		respMu.Unlock()
		ch <- f
	}
	// gauge sampler, running from before Open: neither gauge may ever be negative, the reconnecting gauge never above the
	// number of live reconnect loops (at most one)
	stopSampler := make(chan struct{})
	var samplerWG sync.WaitGroup
	samplerWG.Add(1)
	go func() {
		defer samplerWG.Done()
		var minR, maxR int64
		var noted [3]bool // one note per kind: the sampler runs every 50 µs
		defer func() {
			r.mu.Lock()
			r.hist.RetryMin, r.hist.RetryMax = minR, maxR
			r.mu.Unlock()
		}()
		for {
			select {
			case <-stopSampler:
				return
			default:
			}
			m := conn.Metrics()
			if v := m.DataMsgInflightCount(); v < 0 && !noted[0] {
				noted[0] = true
				r.note("GAUGE-NEGATIVE inflight %d", v)
			}
			v := m.Reconnecting()
			if v < 0 && !noted[1] {
				noted[1] = true
				r.note("GAUGE-NEGATIVE reconnecting %d", v)
			}
			if v > 1 && !noted[2] {
				noted[2] = true
				r.note("RETRY-GAUGE-ABOVE-LIVE-LOOPS: Reconnecting() = %d observed by the sampler (at most one reconnect loop can run)", v)
			}
			minR, maxR = min(minR, v), max(maxR, v)
			time.Sleep(50 * time.Microsecond)
		}
	}()
	octx, ocancel := context.WithTimeout(context.Background(), 10*time.Second)
	mode := hsms.OpenWaitSelected
	if spec.ColdDials > 0 {
		mode = hsms.OpenBackground
	}
	err = conn.Open(octx, mode)
	ocancel()
	if err != nil {
		close(stopSampler)
		samplerWG.Wait()
		r.peer.closeAll()
		_ = conn.Close()
		return nil, nil, "open: " + err.Error()
	}
	closeCold := false
	if spec.ColdDials > 0 {
		// Open returned nil with the peer unreachable; its reconnect loop keeps dialling.  At least two refused attempts: the
		// second one is provably made by the loop, so the loop is running when the snapshot is taken.
		want := int64(max(spec.ColdDials, 2))
		deadline := time.Now().Add(10 * time.Second)
		for time.Now().Before(deadline) && coldRefused.Load() < want {
			time.Sleep(200 * time.Microsecond)
		}
		if coldRefused.Load() < want {
			r.note("cold open: only %d dial attempts within 10 s", coldRefused.Load())
		}
		if st := conn.State(); st != hsms.NotConnectedState {
			r.note("cold open: state %v while every dial is refused", st)
		}
		r.snap("retrying-cold-open")
		if spec.CloseCold {
			closeCold = true
		} else {
			coldHold.Store(false) // the peer appears
			deadline = time.Now().Add(10 * time.Second)
			ok := false
			for time.Now().Before(deadline) && !ok {
				if g := r.peer.last(); g != nil {
					select {
					case <-g.selected:
						ok = conn.State() == hsms.SelectedState
					default:
					}
				}
				if !ok {
					time.Sleep(time.Millisecond)
				}
			}
			if !ok {
				close(stopSampler)
				samplerWG.Wait()
				r.peer.closeAll()
				_ = conn.Close()
				return nil, nil, "cold open: the link was not selected within 10 s after the peer appeared"
			}
			// the reconnect loop has returned once the generation is up
			deadline = time.Now().Add(2 * time.Second)
			for time.Now().Before(deadline) && conn.Metrics().Reconnecting() != 0 {
				time.Sleep(200 * time.Microsecond)
			}
		}
	}
	if !closeCold {
		r.snap("selected")
	}

	runWave := func(wave int) {
		var wg sync.WaitGroup
		for i := range spec.Plans {
			if spec.Plans[i].Wave != wave {
				continue
			}
			i := i
			wg.Add(1)
			go func() {
				defer wg.Done()
				r.call(conn, i)
			}()
		}
		fin := make(chan struct{})
		go func() { wg.Wait(); close(fin) }()
		select {
		case <-fin:
		case <-time.After(30 * time.Second):
			r.note("HANG: wave %d senders did not all return within 30 s", wave)
		}
	}

	hasWave := func(w int) bool {
		for _, p := range spec.Plans {
			if p.Wave == w {
				return true
			}
		}
		return false
	}
	if closeCold {
		// closed while the reconnect loop of the cold open is still retrying: nothing else happens in this history
	} else if spec.Seq {
		// one call at a time, a counter snapshot after each (quiescent between calls)
		for i := range spec.Plans {
			pl := spec.Plans[i]
			if pl.Wave == 3 && spec.Deselect && (i == 0 || spec.Plans[i-1].Wave != 3) {
				g := r.peer.last()
				r.peer.sendCtrl(g, byte(hsms.DeselectReqType), 0, 0x7ffe0000+uint32(i), 0xFFFF)
				r.peer.barrier(g, 0x7ffd0000+uint32(i), 3*time.Second)
				r.mu.Lock()
				r.hist.Life = append(r.hist.Life, rLifeEv{Stamp: rStamp(), What: "deselect", Gen: g.id})
				r.mu.Unlock()
				// a data primary while not Selected: must be refused with Reject(4) and not counted as received
				fr := r.peer.sendData(g, 1, 1, false, 0x7fee0000+uint32(i), 0)
				r.peer.barrier(g, 0x7fed0000+uint32(i), 3*time.Second)
				r.mu.Lock()
				r.hist.NotSelFid = append(r.hist.NotSelFid, fr.Fid)
				r.mu.Unlock()
			}
			if pl.Wave != 3 && spec.Deselect && i > 0 && spec.Plans[i-1].Wave == 3 {
				g := r.peer.last()
				r.peer.sendCtrl(g, byte(hsms.SelectReqType), 0, 0x7ffc0000+uint32(i), 0xFFFF)
				r.peer.barrier(g, 0x7ffb0000+uint32(i), 3*time.Second)
				r.mu.Lock()
				r.hist.Life = append(r.hist.Life, rLifeEv{Stamp: rStamp(), What: "reselect", Gen: g.id})
				r.mu.Unlock()
			}
			runWaveOnly(r, conn, i)
			if g := r.peer.last(); g != nil && !g.closed.Load() {
				r.peer.barrier(g, 0x7ff00000+uint32(i), 3*time.Second)
			}
			r.snap(fmt.Sprintf("after-call-%d", i))
		}
	} else {
		wave0 := make(chan struct{})
		go func() { runWave(0); close(wave0) }()
		wave4 := make(chan struct{})
		go func() {
			defer close(wave4)
			if !hasWave(4) {
				return
			}
			// async sends racing the teardown: started the instant the peer drops generation 0
			deadline := time.Now().Add(15 * time.Second)
			for time.Now().Before(deadline) {
				if g := r.peer.gen(0); g != nil && g.closed.Load() {
					runWave(4)
					return
				}
				time.Sleep(20 * time.Microsecond)
			}
		}()
		if spec.DropMode == "queued" && spec.DropAfter > 0 {
			select {
			case <-r.stalled:
				// the peer stopped reading: pile up async frames and synchronous writers, then drop the generation
				w2 := make(chan struct{})
				go func() { runWave(2); close(w2) }()
				deadline := time.Now().Add(300 * time.Millisecond)
				for time.Now().Before(deadline) {
					done := true
					r.mu.Lock()
					for i, p := range spec.Plans {
						if p.Wave == 2 && p.Kind == "a" && r.hist.Calls[i].End == 0 {
							done = false
						}
					}
					r.mu.Unlock()
					if done {
						break
					}
					time.Sleep(200 * time.Microsecond)
				}
				time.Sleep(2 * time.Millisecond)
				r.peer.gen(0).closeGen()
				<-w2
			case <-time.After(10 * time.Second):
				r.note("the peer never reached the stall point")
			}
		}
		<-wave0
		<-wave4
		if spec.DropAfter > 0 && spec.Reconnect {
			// wait for a later generation to be selected
			deadline := time.Now().Add(10 * time.Second)
			ok := false
			for time.Now().Before(deadline) && !ok {
				if g := r.peer.last(); g != nil && g.id >= 1 {
					select {
					case <-g.selected:
						ok = conn.State() == hsms.SelectedState
					default:
					}
				}
				if !ok {
					time.Sleep(time.Millisecond)
				}
			}
			if !ok {
				r.note("no later generation was selected within 10 s")
			}
			// the reconnect loop has returned once the new generation is up
			deadline = time.Now().Add(2 * time.Second)
			for time.Now().Before(deadline) && conn.Metrics().Reconnecting() != 0 {
				time.Sleep(200 * time.Microsecond)
			}
			r.snap("reselected")
		}
		if hasWave(1) {
			runWave(1)
		}
	}
	if spec.Linktest > 0 {
		// let the idle link run a few auto-linktest rounds
		deadline := time.Now().Add(3 * time.Second)
		for time.Now().Before(deadline) && r.peer.linktests.Load() < 3 {
			time.Sleep(time.Millisecond)
		}
		if r.peer.linktests.Load() < 3 {
			r.note("fewer than 3 auto-linktest rounds within 3 s")
		}
		// stop mirroring before quiescence so that no mirrored data frame races the Close below
		r.peer.mirrorLinktest.Store(false)
	}
	// quiescence: let the responders flush, then a barrier on the live generation
	r.lateWG.Wait()
	if g := r.peer.last(); g != nil && !g.closed.Load() {
		r.peer.barrier(g, 0x7fff0000, 5*time.Second) // flushes the async queue: every accepted frame has reached the peer
	}
	respMu.Lock()
	respClosed = true
	respMu.Unlock()
	close(respDone)
	respWG.Wait()
	if g := r.peer.last(); g != nil && !g.closed.Load() {
		if !r.peer.barrier(g, 0x7fff0001, 5*time.Second) {
			r.note("barrier not answered")
		}
	}
	if st, ok := hsms.VerifRouterSnapshot(r.core); ok {
		r.hist.GenDraws = st.SysBytesDraws
		if st.RegistrySize != 0 {
			// every send call has returned: give a transaction that is not one of ours 200 ms to finish, then report
			first := st
			deadline := time.Now().Add(200 * time.Millisecond)
			for time.Now().Before(deadline) && st.RegistrySize != 0 {
				time.Sleep(5 * time.Millisecond)
				st, _ = hsms.VerifRouterSnapshot(r.core)
			}
			if st.RegistrySize != 0 {
				r.note("REGISTRY-NOT-EMPTY at quiescence: %d entries, system bytes %v", st.RegistrySize, st.RegistryKeys)
			} else {
				// the active Select procedure of a fresh generation may still be unwinding its own (control) transaction
				r.note("REGISTRY-TRANSIENT: %d entries (system bytes %v) right after the last call returned, gone later", first.RegistrySize, first.RegistryKeys)
			}
		}
	}
	if !closeCold {
		r.snap("quiescent")
	}
	r.hist.CloseCall[0] = rStamp()
	_ = conn.Close()
	r.hist.CloseCall[1] = rStamp()
	close(stopSampler)
	samplerWG.Wait()
	r.snap("closed")
	r.peer.closeAll()
	for gi := 0; gi < r.peer.numGens(); gi++ {
		g := r.peer.gen(gi)
		<-g.readerEnd
		r.hist.In = append(r.hist.In, g.inbound())
		r.hist.Out = append(r.hist.Out, g.outbound())
		r.hist.Dials = append(r.hist.Dials, g.DialStamp)
		cs := g.CloseStmp.Load()
		if cs > r.hist.CloseCall[0] {
			cs = 0 // closed by the harness cleanup after conn.Close(), not a peer-initiated drop
		}
		r.hist.Closes = append(r.hist.Closes, cs)
		r.hist.CloseT = append(r.hist.CloseT, g.CloseT.Load())
	}
	return r.hist, r.notes, ""
}
