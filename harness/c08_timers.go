package main

// C08 — establishment, the active Select procedure and the protocol timers T6 / T7 / T8, end to end.
//
// Each scenario plays a short script against a real connection whose timer under test is SMALL (≈120 ms,
// every other timer 20 s) and observes whether and when the library drops the TCP connection, what it sent
// before, and Connection.State(). The responder model (`rsp.ev`, timers as events that may fire only while
// armed) predicts the same script: which event ends the link, the frames sent, the final state, and — for a
// timer the script expects NOT to fire — that its expiry event is not enabled. Timing is asserted with wide
// margins only (lower bound = the configured duration measured from an instant BEFORE the timer can have
// been armed; upper bound + 1.5 s); a mismatching scenario is re-run twice with stretched timers.

import (
	"encoding/hex"
	"fmt"
	"strings"
	"sync"
	"time"

	"github.com/arloliu/go-secs/v2/hsms"
)

type c08TimerScenario struct {
	name   string
	active bool
	timer  string // which timer is small: "T6", "T7", "T8" or "" (none: everything 20 s)
	// steps: "sel" peer Select.req, "desel" Deselect.req, "rsp:<status>" Select.rsp for the library's Select.req,
	// "rej" Reject.req / "drsp" Deselect.rsp / "lrsp" Linktest.rsp carrying the Select's system bytes,
	// "partial" 6 bytes of a frame then silence, "slow" a whole frame written byte by byte with gaps < T8
	steps []string
	// oracle (from the property text / E37): how the script must end
	want      string         // "drop:T6" | "drop:T7" | "drop:T8" | "drop:prompt" | "keep"
	wantState hsms.ConnState // when kept
}

func c08TimerScenarios() []c08TimerScenario {
	S, NS := hsms.SelectedState, hsms.NotSelectedState
	return []c08TimerScenario{
		// active Select procedure
		{"active: Select.req never answered", true, "T6", nil, "drop:T6", NS},
		{"active: Select.rsp status 0", true, "T6", []string{"rsp:0"}, "keep", S},
		{"active: Select.rsp status 0, T7 must be cancelled", true, "T7", []string{"rsp:0"}, "keep", S},
		{"active: Select.rsp status 1 while not selected (dwell keeps running)", true, "T7", []string{"rsp:1"}, "drop:T7", NS},
		{"active: Select.rsp status 2", true, "", []string{"rsp:2"}, "drop:prompt", NS},
		{"active: Select.rsp status 3", true, "", []string{"rsp:3"}, "drop:prompt", NS},
		{"active: Select.rsp status 255", true, "", []string{"rsp:255"}, "drop:prompt", NS},
		{"active: Reject.req for the Select.req", true, "", []string{"rej"}, "drop:prompt", NS},
		{"active: Deselect.rsp for the Select.req", true, "", []string{"drsp"}, "drop:prompt", NS},
		{"active: Linktest.rsp for the Select.req", true, "", []string{"lrsp"}, "drop:prompt", NS},
		{"active: peer selects first, then answers status 1", true, "T6", []string{"sel", "rsp:1"}, "keep", S},
		{"active: peer selects first, never answers ours", true, "T6", []string{"sel"}, "drop:T6", S},
		// T7 dwell
		{"passive: connected, never selected", false, "T7", nil, "drop:T7", NS},
		{"active: connected, Select.req unanswered, T7 first", true, "T7", nil, "drop:T7", NS},
		{"passive: selected", false, "T7", []string{"sel"}, "keep", S},
		{"passive: selected then deselected", false, "T7", []string{"sel", "desel"}, "drop:T7", NS},
		{"passive: select, deselect, select", false, "T7", []string{"sel", "desel", "sel"}, "keep", S},
		{"passive: duplicate deselect does not re-arm a cancelled dwell", false, "T7", []string{"sel", "desel", "sel", "sel"}, "keep", S},
		// a dwell timer armed BEFORE the session was selected must be gone: the Deselect comes half a T7 after TCP-up,
		// so a stale arm would fire half a T7 early (after seeded change C05b-1; C05 runs these too)
		{"passive: selected, half a dwell later deselected", false, "T7", []string{"sel", "pause", "desel"}, "drop:T7", NS},
		{"active: selected, half a dwell later deselected by the peer", true, "T7", []string{"rsp:0", "pause", "desel"}, "drop:T7", NS},
		{"passive: select, pause, deselect, pause, select", false, "T7", []string{"sel", "pause", "desel", "pause", "sel"}, "keep", S},
		// T8
		{"passive: frame stalls after 6 bytes", false, "T8", []string{"sel", "partial"}, "drop:T8", S},
		{"active: frame stalls after 6 bytes", true, "T8", []string{"rsp:0", "partial"}, "drop:T8", S},
		{"passive: slow frame, every gap below T8", false, "T8", []string{"sel", "slow"}, "keep", S},
		{"passive: idle link between frames is not subject to T8", false, "T8", []string{"sel"}, "keep", S},
	}
}

type c08TimerOutcome struct {
	dropped bool
	elapsed time.Duration // reference instant (before the timer could be armed) .. stream closed
	wire    []string
	state   hsms.ConnState
	err     string
	events  []string // the model's event script
}

func c08RunTimerScenario(sc c08TimerScenario, scale int) (o c08TimerOutcome) {
	T := time.Duration(120*scale) * time.Millisecond
	long := 20 * time.Second
	t6, t7, t8 := long, long, long
	switch sc.timer {
	case "T6":
		t6 = T
	case "T7":
		t7 = T
	case "T8":
		t8 = T
	}
	ep, err := NewEndpoint(sc.active, []hsms.ConnOption{hsms.WithT6(t6), hsms.WithT7(t7), hsms.WithT8(t8)})
	if err != nil {
		o.err = err.Error()
		return
	}
	defer ep.Shutdown()
	ref := time.Now() // nothing is armed before Open / before the TCP connection exists
	if err := ep.Open(); err != nil {
		o.err = err.Error()
		return
	}
	p, err := ep.Attach(5 * time.Second)
	if err != nil {
		o.err = err.Error()
		return
	}
	defer p.Close()
	var sel PFrame
	if sc.active {
		f, err := p.Recv(5 * time.Second)
		if err != nil || f.SType() != 1 || len(f.Body) != 0 {
			o.err = fmt.Sprintf("active library did not open with Select.req: %s (%v)", f.Text(), err)
			return
		}
		sel = f
		o.wire = append(o.wire, canonOut(f))
		s := f.Sys()
		o.events = append(o.events, fmt.Sprintf("U:a:%d", uint32(s[0])<<24|uint32(s[1])<<16|uint32(s[2])<<8|uint32(s[3])))
	} else {
		o.events = append(o.events, "U:p")
	}
	ev := func(f PFrame) {
		o.events = append(o.events, "F:"+hex.EncodeToString(f.H[:])+":"+fmt.Sprint(len(f.Body)))
	}
	sys := uint32(0x4a000000)
	for _, st := range sc.steps {
		sys++
		var f PFrame
		switch {
		case st == "sel":
			f = mkFrame(0xFFFF, 0, 0, 0, 1, sysOf(sys), nil)
		case st == "desel":
			f = mkFrame(0xFFFF, 0, 0, 0, 3, sysOf(sys), nil)
			// the dwell restarts when the Deselect is handled: measure from just before it is sent
			ref = time.Now()
		case strings.HasPrefix(st, "rsp:"):
			var status int
			fmt.Sscanf(st[4:], "%d", &status)
			f = mkFrame(sel.Session(), 0, byte(status), 0, 2, sel.Sys(), nil)
		case st == "rej":
			f = mkFrame(sel.Session(), 1, 1, 0, 7, sel.Sys(), nil)
		case st == "drsp":
			f = mkFrame(sel.Session(), 0, 0, 0, 4, sel.Sys(), nil)
		case st == "lrsp":
			f = mkFrame(0xFFFF, 0, 0, 0, 6, sel.Sys(), nil)
		case st == "pause":
			time.Sleep(T / 2)
			continue
		case st == "partial":
			ref = time.Now()
			_ = p.WriteRaw(mkFrame(0xFFFF, 0, 0, 0, 5, sysOf(sys), nil).Wire()[:6])
			o.events = append(o.events, "T8")
			continue
		case st == "slow":
			w := mkFrame(0xFFFF, 0, 0, 0, 5, sysOf(sys), nil)
			for _, b := range w.Wire() {
				_ = p.WriteRaw([]byte{b})
				time.Sleep(T / 8)
			}
			ev(w)
			continue
		}
		if err := p.Send(f); err != nil {
			break
		}
		ev(f)
		if st == "sel" || st == "desel" {
			// keep the script sequential for the observer: wait for the reply before going on
			if r, err := p.Recv(3 * time.Second); err == nil {
				o.wire = append(o.wire, canonOut(r))
			}
		}
	}
	// the timer under test, as the model's event (it answers "!disabled" if it cannot fire any more)
	if sc.timer != "" && sc.timer != "T8" {
		o.events = append(o.events, sc.timer)
	} else if sc.timer == "T8" && (len(sc.steps) == 0 || sc.steps[len(sc.steps)-1] != "partial") {
		// T8 is armed only inside a frame: between frames the model's t8 event is the environment's to inject —
		// the scenario does not inject it
	}
	// observe: a drop, or none within the window
	window := 3 * T
	if strings.HasPrefix(sc.want, "drop") {
		window = T + 3*time.Second
	}
	deadline := time.Now().Add(window)
	for {
		f, err := p.Recv(time.Until(deadline))
		if err == errPeerClosed {
			o.dropped = true
			_, at := p.WaitClosed(time.Second)
			o.elapsed = at.Sub(ref)
			break
		}
		if err != nil {
			break
		}
		o.wire = append(o.wire, canonOut(f))
	}
	if o.dropped {
		ep.WaitState(hsms.NotConnectedState, time.Second)
	}
	o.state = ep.Conn.State()
	return
}

func c08JudgeTimer(c *Ctx, sc c08TimerScenario, o c08TimerOutcome, scale int) [][3]string {
	var bad [][3]string
	add := func(kind, what, detail string) { bad = append(bad, [3]string{kind, what, detail}) }
	T := time.Duration(120*scale) * time.Millisecond
	if o.err != "" {
		add("correspondence", "timer-scenario-failed", o.err)
		return bad
	}
	// --- property oracle
	wantDrop := strings.HasPrefix(sc.want, "drop")
	switch {
	case wantDrop && !o.dropped:
		add("property", "link-not-dropped:"+sc.want, fmt.Sprintf("link still up %v after the script; %s prescribes a disconnect", 3*T, sc.want))
	case !wantDrop && o.dropped:
		add("property", "unexpected-disconnect", fmt.Sprintf("link dropped after %v although nothing prescribes a disconnect (timer %s must not be running)", o.elapsed, sc.timer))
	case wantDrop && sc.want != "drop:prompt":
		if o.elapsed < T-5*time.Millisecond || o.elapsed > T+1500*time.Millisecond+time.Duration(len(sc.steps))*100*time.Millisecond {
			add("property", "drop-time:"+sc.want, fmt.Sprintf("dropped after %v, want about %v (not before it)", o.elapsed, T))
		}
	case wantDrop && o.elapsed > 1500*time.Millisecond:
		add("property", "drop-time:prompt", fmt.Sprintf("dropped only after %v", o.elapsed))
	}
	for _, w := range o.wire {
		if strings.HasPrefix(w, "C:") && len(w) >= 14 && w[12:14] == "09" {
			add("property", "separate-sent-back", "the library sent a Separate.req on a link it dropped for a protocol failure")
		}
	}
	if !o.dropped && o.state != sc.wantState {
		add("property", "state-differs", fmt.Sprintf("Connection.State()=%d, want %d", o.state, sc.wantState))
	}
	// --- the model
	if c.Lean != nil {
		ans := c.Lean.Ask("rsp.ev 0 65535 1 " + strings.Join(o.events, " "))
		parts := strings.Split(ans, ";")
		var mWire []string
		mDrop := ""
		for _, p := range parts[:len(parts)-1] {
			for _, tok := range strings.Fields(p) {
				switch {
				case strings.HasPrefix(tok, "C:"):
					mWire = append(mWire, tok)
				case strings.HasPrefix(tok, "E:"):
					mDrop = tok
				}
			}
		}
		final := strings.TrimSpace(parts[len(parts)-1])
		if (mDrop != "") != o.dropped {
			add("correspondence", "timer-outcome-differs-from-model", fmt.Sprintf("implementation dropped=%v, model: %s", o.dropped, clip(ans, 300)))
		}
		wantKind := map[string]string{"drop:T6": "E:selectfail", "drop:T7": "E:t7", "drop:T8": "E:t8", "drop:prompt": "E:selectfail", "keep": ""}[sc.want]
		if mDrop != wantKind {
			add("correspondence", "timer-cause-differs-from-model", fmt.Sprintf("scenario expects %q, model says %q (%s)", wantKind, mDrop, clip(ans, 300)))
		}
		if strings.Join(o.wire, " ") != strings.Join(mWire, " ") {
			add("correspondence", "responses-differ-from-model", fmt.Sprintf("library sent %v, model %v", o.wire, mWire))
		}
		if !o.dropped && !strings.HasPrefix(final, fmt.Sprintf("st=%d ", int(o.state))) {
			add("correspondence", "state-differs-from-model", fmt.Sprintf("Connection.State()=%d, model %s", o.state, final))
		}
	}
	return bad
}

func c08Timers(c *Ctx) {
	scs := c08TimerScenarios()
	var wg sync.WaitGroup
	sem := make(chan struct{}, 8)
	for _, sc := range scs {
		sc := sc
		wg.Add(1)
		sem <- struct{}{}
		go func() {
			defer wg.Done()
			defer func() { <-sem }()
			var o c08TimerOutcome
			var bad [][3]string
			for attempt, scale := 0, 1; attempt < 3; attempt, scale = attempt+1, scale*3 {
				o = c08RunTimerScenario(sc, scale)
				bad = c08JudgeTimer(c, sc, o, scale)
				if len(bad) == 0 {
					break
				}
				c.Stat("timer-scenario:retry")
			}
			c.Count("timer|"+sc.name, true)
			c.Stat("timer-scenario:" + sc.want)
			replay := map[string]any{"scenario": sc.name, "role_active": sc.active, "small_timer": sc.timer, "steps": sc.steps,
				"model_events": o.events, "dropped": o.dropped, "elapsed_ms": o.elapsed.Milliseconds(), "library_sent": o.wire, "state": int(o.state)}
			c.Sample(replay)
			for _, b := range bad {
				c.Violate(b[0], b[1], sc.name+": "+b[2], replay)
			}
			if c.Lean != nil {
				c.mu.Lock()
				c.Res.Traces++
				c.mu.Unlock()
			}
		}()
	}
	wg.Wait()
}

// c05T7Dwell: C05's clause "a session that has reached Selected is never disconnected by a T7 timeout armed before
// it was selected", end to end on real connections (the T7 scenarios above, judged by the same oracle).
func c05T7Dwell(c *Ctx) {
	for _, sc := range c08TimerScenarios() {
		if sc.timer != "T7" {
			continue
		}
		var o c08TimerOutcome
		var bad [][3]string
		for attempt, scale := 0, 1; attempt < 3; attempt, scale = attempt+1, scale*3 {
			o = c08RunTimerScenario(sc, scale)
			bad = c08JudgeTimer(c, sc, o, scale)
			if len(bad) == 0 {
				break
			}
			c.Stat("t7-dwell:retry")
		}
		c.Count("t7-dwell|"+sc.name, true)
		c.Stat("t7-dwell-scenarios")
		replay := map[string]any{"scenario": sc.name, "role_active": sc.active, "steps": sc.steps, "model_events": o.events,
			"dropped": o.dropped, "elapsed_ms": o.elapsed.Milliseconds(), "library_sent": o.wire, "state": int(o.state)}
		for _, b := range bad {
			what := b[1]
			if b[0] == "property" && (strings.HasPrefix(what, "drop-time") || what == "unexpected-disconnect") {
				what = "t7-not-from-current-dwell"
			}
			c.Violate(b[0], what, sc.name+": "+b[2], replay)
		}
	}
}
