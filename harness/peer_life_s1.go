package main

// peer_life_s1.go — scripted SECS-I (SEMI E4) peer for the connection-lifecycle properties (C10, C11) on the
// secs1 transport. It speaks raw ENQ / EOT / ACK / NAK and block bytes over a harness-owned net.Pipe
// (the lifeNet of peer_life.go supplies the dialer / listener factory), answers W-bit primaries with a
// header-only secondary, and can kill or wedge the line at chosen points of the block protocol.
// Written from SEMI E4 independently of the library's block code. Identifiers prefixed `lifeS1`.

import (
	"net"
	"sync"
	"time"
)

const (
	lifeS1ENQ = 0x05
	lifeS1EOT = 0x04
	lifeS1ACK = 0x06
	lifeS1NAK = 0x15
)

// lifeS1Beh is what the peer does on one line (TCP connection).
type lifeS1Beh struct {
	// Kind: serve | idle (close after a short idle) | midBlock (grant, read Off bytes of the library's block,
	// close) | awaitAck (read the whole block, close instead of ACK) | inboundEnq (ENQ, then close before the
	// block) | inboundMid (ENQ, EOT, Off bytes of an inbound block, close) | postponed (library is the slave:
	// answer its ENQ with ENQ, it yields, Off bytes of our block, close) | retryExhaust = silent (never
	// answer anything, keep the socket open: the library's send exhausts its retries)
	Kind string `json:"kind"`
	Off  int    `json:"off"`
}

type lifeS1Peer struct {
	conn     net.Conn
	master   bool // the peer is the master (equipment) iff the library is the host
	beh      lifeS1Beh
	in       chan byte
	failedAt chan time.Time
	failOnce sync.Once
	onFail   func()
	quit     chan struct{}
	quitOnce sync.Once
	t1, t2   time.Duration
	mu       sync.Mutex
	served   int // complete primary/secondary exchanges served
}

func newLifeS1Peer(conn net.Conn, libIsEquip bool, beh lifeS1Beh) *lifeS1Peer {
	p := &lifeS1Peer{conn: conn, master: !libIsEquip, beh: beh, in: make(chan byte, 1<<14), failedAt: make(chan time.Time, 1),
		quit: make(chan struct{}), t1: time.Second, t2: 2 * time.Second}
	go func() {
		buf := make([]byte, 512)
		for {
			n, err := conn.Read(buf)
			for _, b := range buf[:n] {
				p.in <- b
			}
			if err != nil {
				close(p.in)
				return
			}
		}
	}()
	return p
}

func (p *lifeS1Peer) stop() { p.quitOnce.Do(func() { close(p.quit) }) }

func (p *lifeS1Peer) markFailed() {
	p.failOnce.Do(func() {
		if p.onFail != nil {
			p.onFail()
		}
		p.failedAt <- time.Now()
	})
}

// kill marks the failure and closes the line.
func (p *lifeS1Peer) kill() {
	p.markFailed()
	_ = p.conn.Close()
}

func (p *lifeS1Peer) readByte(d time.Duration) (b byte, ok bool, closed bool) {
	select {
	case b, open := <-p.in:
		if !open {
			return 0, false, true
		}
		return b, true, false
	case <-time.After(d):
		return 0, false, false
	case <-p.quit:
		return 0, false, true
	}
}

func (p *lifeS1Peer) write(b ...byte) error {
	_ = p.conn.SetWriteDeadline(time.Now().Add(5 * time.Second))
	_, err := p.conn.Write(b)
	return err
}

func lifeS1Sum(b []byte) uint16 {
	var s uint32
	for _, v := range b {
		s += uint32(v)
	}
	return uint16(s)
}

// lifeS1Block builds the wire image of a single block: length, 10-byte header, body, 16-bit checksum.
func lifeS1Block(hdr [10]byte, body []byte) []byte {
	w := []byte{byte(10 + len(body))}
	w = append(w, hdr[:]...)
	w = append(w, body...)
	cs := lifeS1Sum(w[1:])
	return append(w, byte(cs>>8), byte(cs))
}

// readBlock reads one block after the line was granted; limit >= 0 stops after that many bytes and
// kills the line (cut inside the library's block). Returns the block bytes and whether it was intact.
func (p *lifeS1Peer) readBlock(limit int) (w []byte, ok bool) {
	take := func(d time.Duration) (byte, bool) {
		if limit >= 0 && len(w) >= limit {
			p.kill()
			return 0, false
		}
		b, got, _ := p.readByte(d)
		return b, got
	}
	lb, got := take(p.t2)
	if !got {
		return w, false
	}
	w = append(w, lb)
	for i := 0; i < int(lb)+2; i++ {
		b, got := take(p.t1)
		if !got {
			return w, false
		}
		w = append(w, b)
	}
	if limit >= 0 && len(w) >= limit {
		p.kill()
		return w, false
	}
	if lb < 10 {
		return w, false
	}
	cs := lifeS1Sum(w[1 : len(w)-2])
	return w, w[len(w)-2] == byte(cs>>8) && w[len(w)-1] == byte(cs)
}

// sendBlock performs the E4 send procedure for one block; cutAt >= 0 writes only that many block bytes
// and kills the line. It returns true when the library ACKed.
func (p *lifeS1Peer) sendBlock(w []byte, cutAt int) bool {
	for attempt := 0; attempt < 6; attempt++ {
		if p.write(lifeS1ENQ) != nil {
			return false
		}
		granted := false
		deadline := time.Now().Add(p.t2)
		for !granted && time.Now().Before(deadline) {
			b, got, closed := p.readByte(time.Until(deadline))
			if closed {
				return false
			}
			if !got {
				break
			}
			switch {
			case b == lifeS1EOT:
				granted = true
			case b == lifeS1ENQ && !p.master:
				// contention and we are the slave: yield, take the library's block, start over
				if p.write(lifeS1EOT) != nil {
					return false
				}
				if blk, ok := p.readBlock(-1); ok {
					_ = p.write(lifeS1ACK)
					p.afterPrimary(blk)
				} else {
					_ = p.write(lifeS1NAK)
				}
				deadline = time.Now()
			}
		}
		if !granted {
			continue
		}
		if cutAt >= 0 {
			if cutAt > len(w) {
				cutAt = len(w)
			}
			if cutAt > 0 {
				_ = p.write(w[:cutAt]...)
			}
			p.kill()
			return false
		}
		if p.write(w...) != nil {
			return false
		}
		for {
			b, got, closed := p.readByte(p.t2)
			if closed || !got {
				return false
			}
			if b == lifeS1ACK {
				return true
			}
			if b == lifeS1NAK {
				break
			}
		}
	}
	return false
}

// afterPrimary answers a W-bit primary with a header-only secondary (function + 1, R-bit flipped, same
// device id and system bytes, block 1 with the E-bit).
func (p *lifeS1Peer) afterPrimary(blk []byte) {
	if len(blk) < 13 || blk[3]&0x80 == 0 {
		return
	}
	var h [10]byte
	copy(h[:], blk[1:11])
	h[0] ^= 0x80         // direction
	h[2] &= 0x7f         // no W-bit on the secondary
	h[3]++               // function + 1
	h[4], h[5] = 0x80, 1 // E-bit, block 1
	if p.sendBlock(lifeS1Block(h, nil), -1) {
		p.mu.Lock()
		p.served++
		p.mu.Unlock()
	}
}

func (p *lifeS1Peer) servedCount() int {
	p.mu.Lock()
	defer p.mu.Unlock()
	return p.served
}

// inboundPrimary is a small primary (S1F1, no reply expected) travelling toward the library.
func (p *lifeS1Peer) inboundPrimary(dev uint16) []byte {
	var h [10]byte
	h[0], h[1] = byte(dev>>8)&0x7f, byte(dev)
	if p.master { // the peer is the equipment: blocks toward the host carry R = 1
		h[0] |= 0x80
	}
	h[2], h[3] = 1, 1
	h[4], h[5] = 0x80, 1
	h[6], h[7], h[8], h[9] = 0x7e, 0, 0, 1
	return lifeS1Block(h, []byte{0x41, 0x02, 0x4f, 0x4b}) // <A "OK">
}

// run is the peer's life on this line.
func (p *lifeS1Peer) run(dev uint16) {
	defer p.conn.Close()
	switch p.beh.Kind {
	case "idle":
		select {
		case <-time.After(15 * time.Millisecond):
		case <-p.quit:
		}
		p.kill()
		return
	case "silent", "retryExhaust":
		<-p.quit
		return
	case "inboundEnq":
		_ = p.write(lifeS1ENQ)
		p.kill()
		return
	case "inboundMid":
		p.sendBlock(p.inboundPrimary(dev), p.beh.Off)
		return
	}
	for {
		b, got, closed := p.readByte(5 * time.Millisecond)
		if closed {
			return
		}
		if !got || b != lifeS1ENQ {
			continue
		}
		switch p.beh.Kind {
		case "midBlock":
			if p.write(lifeS1EOT) != nil {
				return
			}
			p.readBlock(p.beh.Off)
			p.kill()
			return
		case "awaitAck":
			if p.write(lifeS1EOT) != nil {
				return
			}
			if _, ok := p.readBlock(-1); ok {
				p.kill()
				return
			}
			continue
		case "postponed":
			// the library (slave) asked for the line; answer with our own ENQ so it postpones its send,
			// grants us the line and starts receiving — then die inside our block
			p.sendBlock(p.inboundPrimary(dev), p.beh.Off)
			return
		}
		if p.write(lifeS1EOT) != nil {
			return
		}
		blk, ok := p.readBlock(-1)
		if !ok {
			_ = p.write(lifeS1NAK)
			continue
		}
		if p.write(lifeS1ACK) != nil {
			return
		}
		p.afterPrimary(blk)
	}
}
