// Command harness is the correspondence / search side of the verification machinery (tie T2).
//
// It runs the REAL go-secs code in-process (built from /repo's working tree with -tags verif),
// streams the same operations to the Lean model driver over a line protocol, canonicalises and
// diffs, and independently evaluates each property's own oracle on the implementation.
// It writes a JSON result (coverage counters, samples, violations with replays) for ./check.
package main

import (
	"encoding/json"
	"flag"
	"fmt"
	"hash/fnv"
	"math/rand/v2"
	"os"
	"path/filepath"
	"sort"
	"strings"
	"sync"
	"time"
)

// Violation is one disagreement or property failure, with a replay.
type Violation struct {
	Kind   string `json:"kind"`   // "property" (oracle failed on the implementation) or "correspondence" (model != impl)
	What   string `json:"what"`   // short stable signature, used to match known findings
	Detail string `json:"detail"` // human-readable
	Replay any    `json:"replay"` // concrete input / op sequence / history
}

// Result is what the harness reports back to ./check.
type Result struct {
	Property    string         `json:"property"`
	Tier        string         `json:"tier"`
	Seed        uint64         `json:"seed"`
	Evaluations int            `json:"evaluations"`
	Distinct    int            `json:"distinct_nontrivial"`
	Rule        string         `json:"rule"`
	Samples     []any          `json:"samples"`
	Stats       map[string]int `json:"stats"`
	ModelOps    int            `json:"model_ops"`
	Traces      int            `json:"traces_validated_against_impl"`
	Violations  []Violation    `json:"violations"`
	Notes       []string       `json:"notes,omitempty"`
	WallS       float64        `json:"wall_s"`
	Exhaustive  bool           `json:"exhaustive,omitempty"`
}

// Ctx is handed to each property's runner.
type Ctx struct {
	Prop     string
	Tier     string
	Seed     uint64
	Rng      *rand.Rand
	Lean     *Lean // nil in --nomodel mode
	Res      *Result
	mu       sync.Mutex
	distinct map[uint64]struct{}
	maxViol  int
	ReplayIn string
}

func (c *Ctx) Thorough() bool { return c.Tier == "thorough" }

// Pick returns q in quick tier and t in thorough tier.
func (c *Ctx) Pick(q, t int) int {
	if c.Thorough() {
		return t
	}
	return q
}

// Count records one evaluated case; key identifies the case's canonical form for the distinct
// count, nontrivial says whether it counts as non-trivial by the property's stated rule.
func (c *Ctx) Count(key string, nontrivial bool) {
	c.mu.Lock()
	defer c.mu.Unlock()
	c.Res.Evaluations++
	if nontrivial {
		h := fnv.New64a()
		h.Write([]byte(key))
		c.distinct[h.Sum64()] = struct{}{}
	}
}

func (c *Ctx) Stat(name string) { c.StatN(name, 1) }
func (c *Ctx) StatN(name string, n int) {
	c.mu.Lock()
	c.Res.Stats[name] += n
	c.mu.Unlock()
}

// Sample keeps up to 8 written-out cases per run.
func (c *Ctx) Sample(v any) {
	c.mu.Lock()
	if len(c.Res.Samples) < 8 {
		c.Res.Samples = append(c.Res.Samples, v)
	}
	c.mu.Unlock()
}

func (c *Ctx) Note(format string, a ...any) {
	c.mu.Lock()
	c.Res.Notes = append(c.Res.Notes, fmt.Sprintf(format, a...))
	c.mu.Unlock()
}

// Violate records a violation (capped so a systematic failure does not flood the report).
func (c *Ctx) Violate(kind, what, detail string, replay any) {
	c.mu.Lock()
	defer c.mu.Unlock()
	for _, v := range c.Res.Violations {
		if v.What == what && v.Kind == kind {
			return // one representative per signature
		}
	}
	if len(c.Res.Violations) < c.maxViol {
		c.Res.Violations = append(c.Res.Violations, Violation{kind, what, detail, replay})
	}
}

// Scratch returns a throw-away context (same model connection) whose counts and violations are not reported: a
// runner judges an outcome there first and, when it would be reported, reproduces the scenario alone before judging
// it for real — wall-clock scenarios run in parallel on a loaded machine must not raise alarms the code did not earn.
func (c *Ctx) Scratch() *Ctx {
	return &Ctx{Prop: c.Prop, Tier: c.Tier, Seed: c.Seed, Rng: c.Rng, Lean: c.Lean, maxViol: 8,
		Res: &Result{Stats: map[string]int{}, Samples: []any{}, Violations: []Violation{}}, distinct: map[uint64]struct{}{}}
}

func (c *Ctx) Failed() bool {
	c.mu.Lock()
	defer c.mu.Unlock()
	return len(c.Res.Violations) > 0
}

type runner struct {
	rule string
	fn   func(*Ctx)
}

var registry = map[string]runner{}

func register(prop, rule string, fn func(*Ctx)) { registry[prop] = runner{rule, fn} }

func main() {
	prop := flag.String("prop", "", "property id")
	tier := flag.String("tier", "quick", "quick|thorough")
	seed := flag.Uint64("seed", 1, "PRNG seed")
	driver := flag.String("driver", "", "path to the Lean driver executable")
	out := flag.String("out", "", "result JSON path")
	nomodel := flag.Bool("nomodel", false, "run only the implementation-side property oracles")
	replay := flag.String("replay", "", "replay file to re-run (property-specific)")
	list := flag.Bool("list", false, "list registered properties")
	flag.Parse()
	if *list {
		var ks []string
		for k := range registry {
			ks = append(ks, k)
		}
		sort.Strings(ks)
		fmt.Println(strings.Join(ks, " "))
		return
	}
	r, ok := registry[*prop]
	if !ok {
		fmt.Fprintf(os.Stderr, "harness: no runner for %q\n", *prop)
		os.Exit(2)
	}
	res := &Result{Property: *prop, Tier: *tier, Seed: *seed, Rule: r.rule, Stats: map[string]int{}, Samples: []any{}, Violations: []Violation{}}
	ctx := &Ctx{Prop: *prop, Tier: *tier, Seed: *seed, Rng: rand.New(rand.NewPCG(*seed, 0x9e3779b97f4a7c15)),
		Res: res, distinct: map[uint64]struct{}{}, maxViol: 20, ReplayIn: *replay}
	if !*nomodel {
		if *driver == "" {
			fmt.Fprintln(os.Stderr, "harness: -driver required unless -nomodel")
			os.Exit(2)
		}
		l, err := StartLean(*driver)
		if err != nil {
			fmt.Fprintln(os.Stderr, "harness:", err)
			os.Exit(2)
		}
		ctx.Lean = l
		defer l.Close()
	}
	start := time.Now()
	func() {
		defer func() {
			if p := recover(); p != nil {
				ctx.Violate("property", "harness-panic", fmt.Sprintf("panic escaped to the harness top level: %v", p), nil)
			}
		}()
		r.fn(ctx)
	}()
	res.WallS = time.Since(start).Seconds()
	res.Distinct = len(ctx.distinct)
	if ctx.Lean != nil {
		res.ModelOps = ctx.Lean.Ops()
	}
	js, _ := json.MarshalIndent(res, "", " ")
	if *out != "" {
		_ = os.MkdirAll(filepath.Dir(*out), 0o755)
		if err := os.WriteFile(*out, js, 0o644); err != nil {
			fmt.Fprintln(os.Stderr, "harness:", err)
			os.Exit(2)
		}
	} else {
		fmt.Println(string(js))
	}
	if len(res.Violations) > 0 {
		os.Exit(1)
	}
}
