package main

import (
	"bytes"
	"context"
	"encoding/hex"
	"fmt"
	"strings"
	"time"

	"github.com/arloliu/go-secs/v2/secs1"
	"github.com/arloliu/go-secs/v2/secs2"
)

// c18Straddle: contention in the MIDDLE of a multi-block message. A raw equipment (master) peer sends block 1
// of a two-block message on the idle line; the host application then starts its own send, so the host ENQs
// while the master ENQs for block 2. E4: the slave yields, receives block 2 (on its yield path), the master's
// message is delivered complete and exactly once, and the host's postponed message follows.
// (Added after the independently seeded change C18a-2 — a private assembler on the yield path — was missed.)
func c18Straddle(c *Ctx) {
	for _, active := range []bool{true, false} {
		for round := 0; round < c.Pick(2, 6); round++ {
			tag := fmt.Sprintf("straddle|active=%v|%d", active, round)
			c.Count(tag, true)
			c.Stat("straddle")
			e, err := newS1Endpoint(false, active, 0x0123)
			if err != nil {
				c.Note("c18 straddle: endpoint setup failed: %v", err)
				continue
			}
			func() {
				defer e.close()
				p := e.peer
				nblocks := 2 + round%2
				h := secs1.VerifHeader{DeviceID: e.dev, RBit: true, Stream: 6, Function: 11, WaitBit: false,
					SystemBytes: [4]byte{0, 0, 0x71, byte(1 + round)}}
				body := secs2.NewBinaryItem(bytes.Repeat([]byte{0x5a}, 244*(nblocks-1)+50)).ToBytes()
				bs, err := secs1.VerifSplitBody(body, h)
				if err != nil || len(bs) != nblocks {
					c.Note("c18 straddle: unexpected split %d %v", len(bs), err)
					return
				}
				ref := &e4Ref{isEquip: false, dev: e.dev, t4: int64(30 * time.Second)}
				var want []byte
				for _, b := range bs {
					if f := ref.step(0, b); f != nil {
						want = f
					}
				}
				replay := map[string]any{"scenario": "master sends block 1 of an n-block message on the idle line; host application starts a send; master contends for block 2..n; host yields; then the host's postponed send is granted",
					"active": active, "blocks": nblocks}
				if ans := p.sendWire(secs1.VerifAppendTo(nil, bs[0])); ans != 0x06 {
					c.Violate("property", "straddle-block1-not-acked", fmt.Sprintf("block 1 answered %#02x", ans), replay)
					return
				}
				ctx, cancel := context.WithTimeout(context.Background(), 20*time.Second)
				defer cancel()
				sendDone := make(chan error, 1)
				go func() {
					_, err := e.conn.SendDataMessage(ctx, 1, 13, false, secs2.A("host-postponed"))
					sendDone <- err
				}()
				// the host's ENQ
				if b, ok := p.readByte(3 * time.Second); !ok || b != 0x05 {
					c.Violate("correspondence", "straddle-no-host-enq", fmt.Sprintf("expected the host's ENQ, got %#02x ok=%v", b, ok), replay)
					return
				}
				// master contends for each remaining block; the slave must yield with EOT
				for i := 1; i < nblocks; i++ {
					_ = p.write(0x05)
					granted := false
					deadline := time.Now().Add(5 * time.Second)
					for time.Now().Before(deadline) {
						b, ok := p.readByte(time.Until(deadline))
						if !ok {
							break
						}
						if b == 0x04 {
							granted = true
							break
						}
					}
					if !granted {
						c.Violate("property", "straddle-slave-did-not-yield", fmt.Sprintf("the host did not yield the line for block %d", i+1), replay)
						return
					}
					_ = p.write(secs1.VerifAppendTo(nil, bs[i])...)
					ans := byte(0)
					for {
						b, ok := p.readByte(5 * time.Second)
						if !ok {
							break
						}
						if b == 0x06 || b == 0x15 {
							ans = b
							break
						}
					}
					if ans != 0x06 {
						c.Violate("property", "straddle-block-not-acked", fmt.Sprintf("block %d answered %#02x", i+1, ans), replay)
						return
					}
				}
				// the master's message must now be delivered, complete, exactly once
				p.serveUntil(func() bool { return len(e.deliveries()) >= 1 && len(p.received) >= 1 }, 8*time.Second)
				var sendErr error
				select {
				case sendErr = <-sendDone:
				case <-time.After(8 * time.Second):
					sendErr = fmt.Errorf("host send did not return")
				}
				p.serveUntil(func() bool { return false }, 100*time.Millisecond)
				got := e.deliveries()
				replay["line"] = p.lineLog
				if len(got) != 1 || !bytes.Equal(got[0].frame, want) {
					var gs []string
					for _, g := range got {
						gs = append(gs, s1clip(hex.EncodeToString(g.frame), 60))
					}
					c.Violate("property", "straddle-master-message-not-delivered-once", fmt.Sprintf("every block was ACKed, yet the handler saw %d messages %v; E4 says exactly one (%s…)", len(got), gs, s1clip(hex.EncodeToString(want), 40)), replay)
				}
				if sendErr != nil {
					c.Violate("property", "straddle-host-postponed-send-failed", "the host's postponed send failed after the contention resolved: "+sendErr.Error(), replay)
				}
				rec := p.takeReceived()
				if len(rec) != 1 {
					c.Violate("property", "straddle-host-message-count", fmt.Sprintf("the master received %d blocks from the host, expected the one postponed message", len(rec)), replay)
				}
				// cross-check with the two-endpoint model: the master's message is offered, block 1 is transferred on
				// the idle path, the host's message is offered, the rest runs undisturbed (`secs1.lineev ... MnS`)
				if c.Lean != nil && len(rec) == 1 && len(rec[0]) >= 13 {
					w := rec[0]
					hostBody := w[11 : len(w)-2]
					line := fmt.Sprintf("secs1.lineev %d 3 3 MnS M %d:%d:%s:%s:%s S %d:%d:%s:%s:%s", e.dev,
						h.Stream, h.Function, b01(h.WaitBit), hex.EncodeToString(h.SystemBytes[:]), s1hex(body),
						w[3]&0x7f, w[4], b01(w[3]&0x80 != 0), hex.EncodeToString(w[7:11]), s1hex(hostBody))
					ans := c.Lean.Ask(line)
					hostImg := append([]byte{w[1] & 0x7f, w[2], w[3], w[4], 0, 0, w[7], w[8], w[9], w[10]}, hostBody...)
					var gs []string
					for _, g := range got {
						gs = append(gs, hex.EncodeToString(g.frame))
					}
					okS := "OK[]"
					if sendErr == nil {
						okS = "OK[" + hex.EncodeToString(w[7:11]) + "]"
					}
					wantAns := fmt.Sprintf("M D[%s] OK[%s] FAIL[] retry=0 | S D[%s] %s FAIL[] retry=0 | quiescent=true",
						hex.EncodeToString(hostImg), hex.EncodeToString(h.SystemBytes[:]), strings.Join(gs, ","), okS)
					if ans != wantAns {
						c.Violate("correspondence", "straddle-differs-from-line-model", fmt.Sprintf("impl %s / model %s", s1clip(wantAns, 400), s1clip(ans, 400)), replay)
					}
					c.Res.Traces++
					c.Stat("straddle-model-checked")
				}
			}()
		}
	}
}
