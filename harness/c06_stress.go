package main

// C06 under volume: "exactly its own reply or one definite error" when replies are DUPLICATED, or land in the very
// instant the wait ends (caller cancel / T3), thousands of times, with real parallelism.
//
// The scripted histories of c06.go run each transaction once against a peer that duplicates / delays a reply; whatever
// the library does with the copy that loses (discard it, hand it to the handlers as unsolicited) happens on the receive
// goroutine while the sender is unwinding its registration on another CPU.  A defect in that hand-over (a registration
// slot, channel or buffer that is reused while the receive goroutine still holds it) shows only when the two really
// overlap, which takes volume: N senders loop over W-bit transactions on one REAL hsmsss connection (net.Pipe), every
// primary carries a token that is unique for the whole run, the peer echoes the token in every copy of the secondary.
//
// Modes
//   dup         the peer answers every primary 1..3 times (one write / separate writes with a 0..4 µs gap)
//   cancel-tie  the peer cancels the caller's context within ±2 µs of writing the reply
//   t3-tie      T3 is tiny and the peer answers T3 ± 40 µs after it read the primary
//
// Oracle (implementation side, no timing assertion that a loaded machine could break):
//   * a call that returns a reply returns ITS OWN: the body token is the caller's token, stream / function+1 are the
//     caller's, the system bytes are those the peer read on the caller's primary        (reply-of-another-transaction)
//   * a call returns a reply, or an error that its mode allows (dup: none; cancel-tie: the context error; t3-tie: the T3
//     error, not before 0.9*T3)                                                         (stress-unexpected-outcome)
//   * per token: callers that were handed a copy + copies handed to the data handlers <= copies the peer wrote, and at
//     most one caller                                                                   (reply-copies-over-delivered)
//   * at quiescence the reply registry is empty                                          (registry-entry-leaked)

import (
	"context"
	"fmt"
	"math/rand/v2"
	"os"
	"runtime"
	"sync"
	"sync/atomic"
	"time"

	"github.com/arloliu/go-secs/v2/hsms"
	"github.com/arloliu/go-secs/v2/secs2"
)

type c06sSpec struct {
	Name    string        `json:"name"`
	Mode    string        `json:"mode"` // dup | cancel-tie | t3-tie
	Senders int           `json:"senders"`
	MaxTx   int           `json:"max_tx"` // transactions in total (all senders)
	Budget  time.Duration `json:"budget"` // wall-clock budget; the run ends at whichever comes first
	T3      time.Duration `json:"t3"`
	Seed    uint64        `json:"seed"`
}

// c06sCross is the first transaction of a run that was handed something that is not its own reply.
type c06sCross struct {
	Sender    int      `json:"sender"`
	Seq       int      `json:"nth_transaction_of_run"`
	Token     uint32   `json:"own_token"`
	OwnSB     uint32   `json:"own_system_bytes_as_read_by_peer"`
	GotToken  int64    `json:"returned_token"`
	GotSB     uint32   `json:"returned_system_bytes"`
	GotSF     string   `json:"returned_stream_function"`
	WantSF    string   `json:"expected_stream_function"`
	Elapsed   string   `json:"call_duration"`
	Previous  []uint32 `json:"tokens_this_sender_ran_before"`
	PeerWrote uint32   `json:"copies_peer_wrote_of_returned_token"`
}

type c06sJob struct {
	g     *rGen
	f     rFrame
	readT time.Time
}

const (
	c06sOutNone = iota
	c06sOutReply
	c06sOutCtx
	c06sOutTimeout
	c06sOutOther
)

type c06sResult struct {
	Tx, Replies, CtxErr, Timeouts int
	Unsolicited, Copies           int
	Cross                         *c06sCross
	Fails                         [][2]string // (what, detail)
	Wall                          time.Duration
	Staged                        string
}

func c06sSpin(d time.Duration) {
	if d <= 0 {
		return
	}
	t0 := time.Now()
	for time.Since(t0) < d {
	}
}

// c06sRun runs one stress scenario.
func c06sRun(sp c06sSpec) (res c06sResult) {
	peer := newRPeer()
	conn, err := rNewConn(peer, rConnOpts{T3: sp.T3, WriteTimeout: 20 * time.Second, QueueSize: 256})
	if err != nil {
		res.Staged = "config: " + err.Error()
		return
	}
	core := rCore(conn)
	n := sp.MaxTx
	primSB := make([]atomic.Uint32, n)   // system bytes the peer read on the primary of token t
	primSeen := make([]atomic.Uint32, n) // primaries the peer read with token t
	copies := make([]atomic.Uint32, n)   // copies of the secondary the peer wrote completely
	handled := make([]atomic.Uint32, n)  // copies handed to the data handlers
	cancels := make([]atomic.Pointer[context.CancelFunc], n)
	outcome := make([]uint8, n) // written by the owning sender only
	retTok := make([]int64, n)
	var foreign atomic.Int64 // handler deliveries that carry no token of this run
	var bias atomic.Int64    // t3-tie: feedback (ns) that keeps the reply arriving as often before as after the T3 expiry
	conn.AddDataMessageHandler(func(msg *hsms.DataMessage, _ hsms.SECS2Endpoint) {
		t := rParseTag(msg.AppendBodyTo(nil))
		if t >= 0 && int(t) < n {
			handled[t].Add(1)
		} else {
			foreign.Add(1)
		}
	})
	// the peer: the generation's reader queues every W-bit primary, one writer answers in arrival order
	jobs := make(chan c06sJob, 4096)
	var pending atomic.Int64
	peer.onFrame = func(g *rGen, f rFrame) {
		if !f.IsData() || !f.W() || f.Tag < 0 || int(f.Tag) >= n {
			return
		}
		primSB[f.Tag].Store(f.SB)
		primSeen[f.Tag].Add(1)
		pending.Add(1)
		jobs <- c06sJob{g, f, time.Now()}
	}
	var pwg sync.WaitGroup
	pwg.Add(1)
	go func() {
		defer pwg.Done()
		rng := rand.New(rand.NewPCG(sp.Seed, 0xc06))
		write := func(g *rGen, raw []byte) bool {
			g.wmu.Lock()
			defer g.wmu.Unlock()
			_ = g.peerEnd.SetWriteDeadline(time.Now().Add(10 * time.Second))
			_, err := g.peerEnd.Write(raw)
			return err == nil
		}
		for j := range jobs {
			f, t := j.f, uint32(j.f.Tag)
			raw := rBuildFrame(f.Session, f.Stream(), f.Fn()+1, 0, 0, f.SB, rTagBody(t))
			k := 1
			switch sp.Mode {
			case "dup":
				k = []int{2, 2, 2, 2, 3, 1}[rng.IntN(6)]
			default:
				if rng.IntN(4) == 0 {
					k = 2
				}
			}
			var cancel context.CancelFunc
			cancelFirst := false
			gap := time.Duration(rng.IntN(2000)) * time.Nanosecond
			switch sp.Mode {
			case "cancel-tie":
				if p := cancels[t].Load(); p != nil {
					cancel = *p
				}
				cancelFirst = rng.IntN(2) == 0
			case "t3-tie":
				at := j.readT.Add(sp.T3 + time.Duration(bias.Load()) + time.Duration(rng.IntN(40)-20)*time.Microsecond)
				if d := time.Until(at); d > 200*time.Microsecond {
					time.Sleep(d - 150*time.Microsecond)
				}
				c06sSpin(time.Until(at))
			}
			if cancel != nil && cancelFirst {
				cancel()
				c06sSpin(gap)
			} else if cancel != nil {
				cf := cancel
				go func() { c06sSpin(gap); cf() }() // the write below returns only when the library has read the frame
			}
			if k > 1 && rng.IntN(2) == 0 { // every copy in one write
				all := make([]byte, 0, k*len(raw))
				for c := 0; c < k; c++ {
					all = append(all, raw...)
				}
				if write(j.g, all) {
					copies[t].Add(uint32(k))
				} else {
					copies[t].Add(1000) // the link went away under the write: how many copies got through is unknown
				}
			} else {
				for c := 0; c < k; c++ {
					if c > 0 {
						c06sSpin(time.Duration(rng.IntN(4000)) * time.Nanosecond)
					}
					if write(j.g, raw) {
						copies[t].Add(1)
					} else {
						copies[t].Add(1000)
					}
				}
			}
			pending.Add(-1)
		}
	}()
	cleanup := func() {
		_ = conn.Close()
		peer.closeAll()
		for gi := 0; gi < peer.numGens(); gi++ {
			<-peer.gen(gi).readerEnd // no reader can queue a job any more
		}
		close(jobs)
		pwg.Wait()
	}
	octx, ocancel := context.WithTimeout(context.Background(), 10*time.Second)
	err = conn.Open(octx, hsms.OpenWaitSelected)
	ocancel()
	if err != nil {
		cleanup()
		res.Staged = "open: " + err.Error()
		return
	}
	var tokCtr atomic.Int64
	var stop atomic.Bool
	var crossMu sync.Mutex
	start := time.Now()
	deadline := start.Add(sp.Budget)
	fail := func(what, detail string) {
		crossMu.Lock()
		if len(res.Fails) < 8 {
			res.Fails = append(res.Fails, [2]string{what, detail})
		}
		crossMu.Unlock()
		stop.Store(true)
	}
	var wg sync.WaitGroup
	for i := 0; i < sp.Senders; i++ {
		i := i
		wg.Add(1)
		go func() {
			defer wg.Done()
			var prev []uint32
			stream := byte(1 + i%100)
			for !stop.Load() && time.Now().Before(deadline) {
				tt := tokCtr.Add(1) - 1
				if tt >= int64(n) {
					return
				}
				t := uint32(tt)
				fn := byte(1 + 2*(t%100))
				ctx := context.Background()
				var cancel context.CancelFunc
				if sp.Mode == "cancel-tie" {
					ctx, cancel = context.WithCancel(ctx)
					cancels[t].Store(&cancel)
				}
				t0 := time.Now()
				reply, err := conn.SendDataMessage(ctx, stream, fn, true, secs2.NewUintItem(4, t))
				el := time.Since(t0)
				if cancel != nil {
					cancel()
				}
				var r rCallResult
				rClassify(reply, err, &r)
				retTok[t] = -1
				switch r.Outcome {
				case "reply":
					outcome[t] = c06sOutReply
					if bias.Load() < int64(sp.T3)/2 {
						bias.Add(500)
					}
					retTok[t] = r.ReplyTag
					ownSB := primSB[t].Load()
					if r.ReplyTag != int64(t) || r.ReplySB != ownSB || reply.Stream() != stream || r.ReplyFn != fn+1 || r.ReplyW {
						cr := &c06sCross{Sender: i, Seq: int(tt), Token: t, OwnSB: ownSB, GotToken: r.ReplyTag, GotSB: r.ReplySB,
							GotSF: fmt.Sprintf("S%dF%d W=%v", reply.Stream(), r.ReplyFn, r.ReplyW), WantSF: fmt.Sprintf("S%dF%d W=false", stream, fn+1),
							Elapsed: el.String(), Previous: append([]uint32(nil), prev...)}
						crossMu.Lock()
						if res.Cross == nil {
							res.Cross = cr
						}
						crossMu.Unlock()
						stop.Store(true)
					}
				case "ctx":
					outcome[t] = c06sOutCtx
					if sp.Mode != "cancel-tie" {
						fail("stress-unexpected-outcome", fmt.Sprintf("transaction %d (sender %d) returned a context error (%s) but nobody cancelled its context", t, i, r.Err))
					}
				case "timeout":
					outcome[t] = c06sOutTimeout
					if bias.Load() > -int64(sp.T3)/2 {
						bias.Add(-500) // answer a little earlier
					}
					if sp.Mode != "t3-tie" {
						fail("stress-unexpected-outcome", fmt.Sprintf("transaction %d (sender %d) returned the T3 error after %v (T3 = %v) although the peer answers every primary at once", t, i, el, sp.T3))
					} else if el < sp.T3*9/10 {
						fail("t3-early", fmt.Sprintf("transaction %d (sender %d) returned the T3 error after %v (T3 = %v)", t, i, el, sp.T3))
					}
				default:
					outcome[t] = c06sOutOther
					fail("stress-unexpected-outcome", fmt.Sprintf("transaction %d (sender %d) returned %s (%s) on a healthy Selected link", t, i, r.Outcome, r.Err))
				}
				if len(prev) >= 6 {
					prev = prev[1:]
				}
				prev = append(prev, t)
			}
		}()
	}
	fin := make(chan struct{})
	go func() { wg.Wait(); close(fin) }()
	select {
	case <-fin:
	case <-time.After(sp.Budget + sp.T3 + 30*time.Second):
		res.Fails = append(res.Fails, [2]string{"send-never-returned", "a sender of the stress run did not return"})
		stop.Store(true)
		cleanup()
		return
	}
	res.Wall = time.Since(start)
	used := int(min(tokCtr.Load(), int64(n)))
	res.Tx = used
	// quiescence: the writer has answered everything it was given and the library has dispatched all of it
	c09WaitFor(func() bool { return pending.Load() == 0 }, 10*time.Second)
	if g := peer.last(); g != nil && !g.closed.Load() {
		peer.barrier(g, 0x7fc06000, 5*time.Second)
	}
	if st, ok := hsms.VerifRouterSnapshot(core); ok && st.RegistrySize != 0 {
		c09WaitFor(func() bool { st, _ = hsms.VerifRouterSnapshot(core); return st.RegistrySize == 0 }, 300*time.Millisecond)
		if st.RegistrySize != 0 {
			res.Fails = append(res.Fails, [2]string{"registry-entry-leaked", fmt.Sprintf("every send call of the stress run has returned; the reply registry still holds %d entries (system bytes %v)", st.RegistrySize, st.RegistryKeys)})
		}
	}
	cleanup()
	// accounting per token
	returned := make([]uint32, used)
	for t := 0; t < used; t++ {
		switch outcome[t] {
		case c06sOutReply:
			res.Replies++
			if rt := retTok[t]; rt >= 0 && int(rt) < used {
				returned[rt]++
			}
		case c06sOutCtx:
			res.CtxErr++
		case c06sOutTimeout:
			res.Timeouts++
		}
	}
	if cr := res.Cross; cr != nil && cr.GotToken >= 0 && int(cr.GotToken) < n {
		cr.PeerWrote = copies[cr.GotToken].Load()
	}
	over := 0
	for t := 0; t < used; t++ {
		cp, hd := copies[t].Load(), handled[t].Load()
		res.Copies += int(cp)
		res.Unsolicited += int(hd)
		if primSeen[t].Load() > 1 && over == 0 {
			over++
			res.Fails = append(res.Fails, [2]string{"primary-written-twice", fmt.Sprintf("the primary of transaction %d reached the peer %d times", t, primSeen[t].Load())})
		}
		if (returned[t] > 1 || returned[t]+hd > cp) && over < 2 {
			over++
			res.Fails = append(res.Fails, [2]string{"reply-copies-over-delivered", fmt.Sprintf("the peer wrote %d cop(ies) of the secondary of transaction %d (system bytes %d); %d caller(s) were handed one and %d went to the data handlers",
				cp, t, primSB[t].Load(), returned[t], hd)})
		}
	}
	if fz := foreign.Load(); fz > 0 {
		res.Fails = append(res.Fails, [2]string{"frame-not-sent-by-peer-delivered", fmt.Sprintf("%d data message(s) carrying no token of this run reached the handlers", fz)})
	}
	return res
}

// c06StressOnly: debugging aid (VERIF_C06_ONLY=stress runs this family alone).
func c06StressOnly(c *Ctx) bool {
	if os.Getenv("VERIF_C06_ONLY") != "stress" {
		return false
	}
	c06Stress(c)
	return true
}

// c06Stress runs the family.
func c06Stress(c *Ctx) {
	if runtime.GOMAXPROCS(0) < 4 {
		prevProcs := runtime.GOMAXPROCS(4) // the overlap of the receive goroutine and a returning sender needs real parallelism
		defer runtime.GOMAXPROCS(prevProcs)
	}
	scale := 1
	if raceBuild {
		scale = 3
	}
	ms := func(q, t int) time.Duration { return time.Duration(c.Pick(q, t)*scale) * time.Millisecond }
	specs := []c06sSpec{
		// the volume is what counts: the wall-clock budget only caps a run on a loaded machine (idle: 40000 duplicated
		// transactions take about 1.2 s, 12000 cancel ties 0.3 s)
		{Name: "dup-8", Mode: "dup", Senders: 8, MaxTx: c.Pick(40000, 600000), Budget: ms(6000, 60000), T3: 20 * time.Second},
		{Name: "cancel-tie-8", Mode: "cancel-tie", Senders: 8, MaxTx: c.Pick(12000, 200000), Budget: ms(2500, 20000), T3: 20 * time.Second},
		{Name: "t3-tie-8", Mode: "t3-tie", Senders: 8, MaxTx: c.Pick(4000, 100000), Budget: ms(1500, 15000), T3: 300 * time.Microsecond},
	}
	if c.Thorough() {
		specs = append(specs,
			c06sSpec{Name: "dup-2", Mode: "dup", Senders: 2, MaxTx: 200000, Budget: ms(0, 15000), T3: 20 * time.Second},
			c06sSpec{Name: "dup-32", Mode: "dup", Senders: 32, MaxTx: 300000, Budget: ms(0, 20000), T3: 20 * time.Second})
	}
	only := os.Getenv("VERIF_C06_STRESS_MODE") // debugging aid: one mode only
	for _, sp := range specs {
		if routerStop(c) {
			return
		}
		if only != "" && sp.Mode != only {
			continue
		}
		sp.Seed = c.Rng.Uint64()
		res := c06sRun(sp)
		replay := map[string]any{"family": "stress: unique token per transaction, duplicated / tied replies", "spec": sp, "transactions": res.Tx,
			"replies": res.Replies, "ctx_errors": res.CtxErr, "t3_errors": res.Timeouts, "copies_written_by_peer": res.Copies,
			"copies_to_handlers": res.Unsolicited, "wall": res.Wall.String(), "gomaxprocs": runtime.GOMAXPROCS(0)}
		if res.Staged != "" {
			c.Violate("correspondence", "scenario-did-not-start", "stress/"+sp.Name+": "+res.Staged, replay)
			continue
		}
		if cr := res.Cross; cr != nil {
			replay["crossed"] = cr
			c.Violate("property", "reply-of-another-transaction", fmt.Sprintf("stress/%s: transaction %d of the run (sender %d, token %d, system bytes %d, %s) was handed, after %s and with a nil error, "+
				"a message with token %d, system bytes %d, %s — the reply of another transaction (the peer had written %d cop(ies) of that reply)",
				sp.Name, cr.Seq, cr.Sender, cr.Token, cr.OwnSB, cr.WantSF, cr.Elapsed, cr.GotToken, cr.GotSB, cr.GotSF, cr.PeerWrote), replay)
		}
		for _, f := range res.Fails {
			c.Violate("property", f[0], "stress/"+sp.Name+": "+f[1], replay)
		}
		c.Count(fmt.Sprintf("stress|%s|%d|%d", sp.Mode, sp.Senders, res.Tx/1000), res.Tx > 1)
		c.StatN("stress-transactions:"+sp.Mode, res.Tx)
		c.StatN("stress-copies-to-handlers:"+sp.Mode, res.Unsolicited)
		c.StatN("stress-ctx-errors:"+sp.Mode, res.CtxErr)
		c.StatN("stress-t3-errors:"+sp.Mode, res.Timeouts)
		if len(c.Res.Samples) < 8 {
			c.Sample(map[string]any{"scenario": "stress/" + sp.Name, "transactions": res.Tx, "replies": res.Replies, "ctx_errors": res.CtxErr,
				"t3_errors": res.Timeouts, "copies_written_by_peer": res.Copies, "copies_to_handlers": res.Unsolicited, "wall": res.Wall.String()})
		}
	}
}
