package main

import (
	"bufio"
	"fmt"
	"io"
	"os"
	"os/exec"
	"strings"
	"sync"
)

// Lean is a client for the Lean model driver (one line in, one line out).
type Lean struct {
	cmd *exec.Cmd
	in  *bufio.Writer
	inC io.Closer
	out *bufio.Reader
	mu  sync.Mutex
	ops int
}

func StartLean(path string) (*Lean, error) {
	cmd := exec.Command(path)
	in, err := cmd.StdinPipe()
	if err != nil {
		return nil, err
	}
	out, err := cmd.StdoutPipe()
	if err != nil {
		return nil, err
	}
	cmd.Stderr = os.Stderr
	if err := cmd.Start(); err != nil {
		return nil, fmt.Errorf("start lean driver: %w", err)
	}
	return &Lean{cmd: cmd, in: bufio.NewWriterSize(in, 1<<20), inC: in, out: bufio.NewReaderSize(out, 1<<20)}, nil
}

// Ask sends one operation and returns the model's answer.
func (l *Lean) Ask(line string) string {
	return l.AskAll([]string{line})[0]
}

// AskAll pipelines a batch of operations (writer and reader run concurrently so neither pipe fills).
func (l *Lean) AskAll(lines []string) []string {
	l.mu.Lock()
	defer l.mu.Unlock()
	res := make([]string, len(lines))
	done := make(chan error, 1)
	go func() {
		for _, s := range lines {
			if strings.ContainsAny(s, "\n\r") {
				s = strings.NewReplacer("\n", " ", "\r", " ").Replace(s)
			}
			l.in.WriteString(s)
			l.in.WriteByte('\n')
		}
		done <- l.in.Flush()
	}()
	for i := range lines {
		s, err := l.out.ReadString('\n')
		if err != nil {
			res[i] = "driver-error " + err.Error()
			for j := i + 1; j < len(lines); j++ {
				res[j] = "driver-error eof"
			}
			break
		}
		res[i] = strings.TrimRight(s, "\n")
	}
	<-done
	l.ops += len(lines)
	return res
}

func (l *Lean) Ops() int { return l.ops }

func (l *Lean) Close() {
	l.inC.Close()
	l.cmd.Wait()
}
