package main

// Shared scripted HSMS peer and endpoint plumbing (scripted-peer drive mode, DESIGN §1.3).
//
// A REAL hsmsss connection (active or passive role) runs in-process; the harness owns the other end of
// its TCP stream: loopback sockets on ephemeral ports only (port 0), created by the harness — the passive
// role listens through WithListener on a harness-made 127.0.0.1:0 listener, the active role dials a
// harness-made 127.0.0.1:0 listener. The peer is byte-level: it writes whatever the script says (any
// grouping of bytes into writes) and parses the library's outbound stream into frames with arrival times.

import (
	"context"
	"encoding/binary"
	"encoding/hex"
	"errors"
	"fmt"
	"io"
	"net"
	"sync"
	"time"

	"github.com/arloliu/go-secs/v2/hsms"
	"github.com/arloliu/go-secs/v2/hsmsss"
	"github.com/arloliu/go-secs/v2/logger"
)

// ---------------------------------------------------------------------------------------------
// frames

// PFrame is one HSMS frame as the peer sees it: 10-byte header + body (the 4-byte length is implied).
type PFrame struct {
	H    [10]byte
	Body []byte
	At   time.Time // arrival time (frames read from the library only)
}

func (f PFrame) Session() uint16 { return binary.BigEndian.Uint16(f.H[0:2]) }
func (f PFrame) B2() byte        { return f.H[2] }
func (f PFrame) B3() byte        { return f.H[3] }
func (f PFrame) PType() byte     { return f.H[4] }
func (f PFrame) SType() byte     { return f.H[5] }
func (f PFrame) Sys() [4]byte    { return [4]byte{f.H[6], f.H[7], f.H[8], f.H[9]} }

// Wire returns length prefix + header + body.
func (f PFrame) Wire() []byte {
	out := make([]byte, 4, 14+len(f.Body))
	binary.BigEndian.PutUint32(out, uint32(10+len(f.Body)))
	out = append(out, f.H[:]...)
	return append(out, f.Body...)
}

// Text is the canonical protocol text of a frame: header hex, then body hex ("-" for none).
func (f PFrame) Text() string {
	b := "-"
	if len(f.Body) > 0 {
		b = hex.EncodeToString(f.Body)
	}
	return hex.EncodeToString(f.H[:]) + " " + b
}

func mkFrame(session uint16, b2, b3, ptype, stype byte, sys [4]byte, body []byte) PFrame {
	var f PFrame
	binary.BigEndian.PutUint16(f.H[0:2], session)
	f.H[2], f.H[3], f.H[4], f.H[5] = b2, b3, ptype, stype
	copy(f.H[6:10], sys[:])
	f.Body = body
	return f
}

func sysOf(n uint32) [4]byte {
	var b [4]byte
	binary.BigEndian.PutUint32(b[:], n)
	return b
}

// ---------------------------------------------------------------------------------------------
// scripted peer

var (
	errPeerTimeout = errors.New("peer: timeout waiting for a frame")
	errPeerClosed  = errors.New("peer: connection closed by the library")
)

// ScriptPeer wraps the harness side of the stream. A reader goroutine parses the library's outbound
// bytes into frames (FIFO); Recv pops them.
type ScriptPeer struct {
	c        net.Conn
	mu       sync.Mutex
	cond     *sync.Cond
	q        []PFrame
	closed   bool
	closedAt time.Time
	readErr  error
	done     chan struct{}
	wmu      sync.Mutex
}

func NewScriptPeer(c net.Conn) *ScriptPeer {
	p := &ScriptPeer{c: c, done: make(chan struct{})}
	p.cond = sync.NewCond(&p.mu)
	go p.reader()
	return p
}

func (p *ScriptPeer) reader() {
	defer close(p.done)
	for {
		var lb [4]byte
		_, err := io.ReadFull(p.c, lb[:])
		if err == nil {
			n := binary.BigEndian.Uint32(lb[:])
			if n < 10 || n > 1<<24 {
				err = fmt.Errorf("peer: library sent frame length %d", n)
			} else {
				buf := make([]byte, n)
				if _, err = io.ReadFull(p.c, buf); err == nil {
					var f PFrame
					copy(f.H[:], buf[:10])
					f.Body = buf[10:]
					f.At = time.Now()
					p.mu.Lock()
					p.q = append(p.q, f)
					p.cond.Broadcast()
					p.mu.Unlock()
					continue
				}
			}
		}
		p.mu.Lock()
		p.closed = true
		p.closedAt = time.Now()
		p.readErr = err
		p.cond.Broadcast()
		p.mu.Unlock()
		return
	}
}

// Recv returns the next frame the library sent, errPeerClosed once the stream ended and the queue is
// drained, or errPeerTimeout.
func (p *ScriptPeer) Recv(timeout time.Duration) (PFrame, error) {
	deadline := time.Now().Add(timeout)
	t := time.AfterFunc(timeout, func() { p.mu.Lock(); p.cond.Broadcast(); p.mu.Unlock() })
	defer t.Stop()
	p.mu.Lock()
	defer p.mu.Unlock()
	for {
		if len(p.q) > 0 {
			f := p.q[0]
			p.q = p.q[1:]
			return f, nil
		}
		if p.closed {
			return PFrame{}, errPeerClosed
		}
		if !time.Now().Before(deadline) {
			return PFrame{}, errPeerTimeout
		}
		p.cond.Wait()
	}
}

// Pending returns how many received frames are queued.
func (p *ScriptPeer) Pending() int {
	p.mu.Lock()
	defer p.mu.Unlock()
	return len(p.q)
}

// WaitClosed waits until the library closed the stream; it reports whether that happened and when.
func (p *ScriptPeer) WaitClosed(timeout time.Duration) (bool, time.Time) {
	select {
	case <-p.done:
		p.mu.Lock()
		defer p.mu.Unlock()
		return true, p.closedAt
	case <-time.After(timeout):
		return false, time.Time{}
	}
}

// IsClosed reports whether the library side has closed the stream (non-blocking).
func (p *ScriptPeer) IsClosed() bool {
	select {
	case <-p.done:
		return true
	default:
		return false
	}
}

// Send writes the frames back to back in ONE write call.
func (p *ScriptPeer) Send(fs ...PFrame) error {
	var b []byte
	for _, f := range fs {
		b = append(b, f.Wire()...)
	}
	return p.WriteRaw(b)
}

// WriteRaw writes arbitrary bytes in one write call.
func (p *ScriptPeer) WriteRaw(b []byte) error {
	p.wmu.Lock()
	defer p.wmu.Unlock()
	_ = p.c.SetWriteDeadline(time.Now().Add(5 * time.Second))
	_, err := p.c.Write(b)
	return err
}

// WriteGrouped writes b split at the given cut offsets (ascending, within 0..len(b)); a short pause
// between groups lets each group arrive as its own read on the library side.
func (p *ScriptPeer) WriteGrouped(b []byte, cuts []int, pause time.Duration) error {
	prev := 0
	for _, c := range append(append([]int{}, cuts...), len(b)) {
		if c <= prev || c > len(b) {
			continue
		}
		if err := p.WriteRaw(b[prev:c]); err != nil {
			return err
		}
		prev = c
		if pause > 0 && c < len(b) {
			time.Sleep(pause)
		}
	}
	return nil
}

func (p *ScriptPeer) Close() {
	_ = p.c.Close()
	<-p.done
}

// ---------------------------------------------------------------------------------------------
// endpoint under test

type quietLogger struct{}

func (quietLogger) Debug(string, ...any)        {}
func (quietLogger) Info(string, ...any)         {}
func (quietLogger) Warn(string, ...any)         {}
func (quietLogger) Error(string, ...any)        {}
func (quietLogger) Fatal(string, ...any)        {}
func (q quietLogger) With(...any) logger.Logger { return q }
func (quietLogger) Level() logger.LogLevel      { return logger.FatalLevel }
func (quietLogger) SetLevel(logger.LogLevel)    {}

var _ logger.Logger = quietLogger{}

// Delivered is one data message handed to the application's handler.
type Delivered struct {
	H       [10]byte
	BodyLen int
}

// Endpoint is a real hsmsss connection whose every socket the harness owns.
type Endpoint struct {
	Conn   hsmsss.Connection
	Active bool

	ln net.Listener // active role: the harness listener the library dials

	mu        sync.Mutex
	lnAddr    string // passive role: address of the library's current listener
	lnReady   chan struct{}
	delivered []Delivered
	states    []string
}

// NewEndpoint builds (does not open) a connection in the given role. Timers default to values long enough
// that none fires during a scripted exchange unless the caller overrides them.
func NewEndpoint(active bool, copts []hsms.ConnOption, opts ...hsmsss.Option) (*Endpoint, error) {
	ep := &Endpoint{Active: active, lnReady: make(chan struct{}, 16)}
	base := []hsms.ConnOption{
		hsms.WithLogger(quietLogger{}),
		hsms.WithT3(20 * time.Second), hsms.WithT5(50 * time.Millisecond), hsms.WithT6(20 * time.Second),
		hsms.WithT7(20 * time.Second), hsms.WithT8(20 * time.Second),
		hsms.WithCloseTimeout(3 * time.Second),
		hsms.WithLinktestInterval(0),
	}
	var all []hsmsss.Option
	host, port := "127.0.0.1", 1
	if active {
		ln, err := net.Listen("tcp", "127.0.0.1:0")
		if err != nil {
			return nil, err
		}
		ep.ln = ln
		port = ln.Addr().(*net.TCPAddr).Port
		all = append(all, hsmsss.WithActive())
	} else {
		all = append(all, hsmsss.WithPassive(), hsmsss.WithListener(func(ctx context.Context, network, _ string) (net.Listener, error) {
			ln, err := (&net.ListenConfig{}).Listen(ctx, network, "127.0.0.1:0")
			if err != nil {
				return nil, err
			}
			ep.mu.Lock()
			ep.lnAddr = ln.Addr().String()
			ep.mu.Unlock()
			select {
			case ep.lnReady <- struct{}{}:
			default:
			}
			return ln, nil
		}))
	}
	for _, o := range append(base, copts...) {
		all = append(all, hsmsss.WithConnectionOption(o))
	}
	all = append(all, opts...)
	cfg, err := hsmsss.NewConfig(host, port, all...)
	if err != nil {
		return nil, err
	}
	conn, err := hsmsss.New(cfg)
	if err != nil {
		return nil, err
	}
	ep.Conn = conn
	conn.AddDataMessageHandler(func(msg *hsms.DataMessage, _ hsms.SECS2Endpoint) {
		d := Delivered{H: msg.HeaderBytes(), BodyLen: len(msg.ToBytes()) - 14}
		ep.mu.Lock()
		ep.delivered = append(ep.delivered, d)
		ep.mu.Unlock()
	})
	conn.AddConnStateChangeHandler(func(prev, next hsms.ConnState) {
		ep.mu.Lock()
		ep.states = append(ep.states, fmt.Sprintf("%d>%d", prev, next))
		ep.mu.Unlock()
	})
	return ep, nil
}

// Open opens the connection in background mode (never blocks on the peer).
func (ep *Endpoint) Open() error {
	ctx, cancel := context.WithTimeout(context.Background(), 5*time.Second)
	defer cancel()
	return ep.Conn.Open(ctx, hsms.OpenBackground)
}

// Attach yields the harness end of the next TCP generation: it accepts the library's dial (active role)
// or dials the library's current listener (passive role).
func (ep *Endpoint) Attach(timeout time.Duration) (*ScriptPeer, error) {
	if ep.Active {
		_ = ep.ln.(*net.TCPListener).SetDeadline(time.Now().Add(timeout))
		c, err := ep.ln.Accept()
		if err != nil {
			return nil, err
		}
		return NewScriptPeer(c), nil
	}
	select {
	case <-ep.lnReady:
	case <-time.After(timeout):
		return nil, errors.New("endpoint: the library never listened")
	}
	c, err := ep.DialRaw(timeout)
	if err != nil {
		return nil, err
	}
	return NewScriptPeer(c), nil
}

// DialRaw opens one more TCP connection to the passive library's current listener.
func (ep *Endpoint) DialRaw(timeout time.Duration) (net.Conn, error) {
	ep.mu.Lock()
	addr := ep.lnAddr
	ep.mu.Unlock()
	if addr == "" {
		return nil, errors.New("endpoint: no listener address")
	}
	return net.DialTimeout("tcp", addr, timeout)
}

// Delivered returns a snapshot of the data messages handed to the handler so far.
func (ep *Endpoint) Delivered() []Delivered {
	ep.mu.Lock()
	defer ep.mu.Unlock()
	return append([]Delivered(nil), ep.delivered...)
}

func (ep *Endpoint) States() []string {
	ep.mu.Lock()
	defer ep.mu.Unlock()
	return append([]string(nil), ep.states...)
}

// Shutdown closes the connection and the harness listener.
func (ep *Endpoint) Shutdown() {
	_ = ep.Conn.Close()
	if ep.ln != nil {
		_ = ep.ln.Close()
	}
}

// WaitState polls Conn.State() until it equals want or the timeout passes.
func (ep *Endpoint) WaitState(want hsms.ConnState, timeout time.Duration) bool {
	deadline := time.Now().Add(timeout)
	for {
		if ep.Conn.State() == want {
			return true
		}
		if time.Now().After(deadline) {
			return false
		}
		time.Sleep(500 * time.Microsecond)
	}
}

// EstablishSelected attaches a peer and completes the select procedure in the endpoint's role: the active
// library sends Select.req (answered with status 0), the passive one is sent a Select.req. It returns the
// peer and the instant just before the establishing frame was written.
func (ep *Endpoint) EstablishSelected(timeout time.Duration) (*ScriptPeer, time.Time, error) {
	p, err := ep.Attach(timeout)
	if err != nil {
		return nil, time.Time{}, err
	}
	var t0 time.Time
	if ep.Active {
		f, err := p.Recv(timeout)
		if err != nil || f.SType() != 1 {
			p.Close()
			return nil, t0, fmt.Errorf("endpoint: expected Select.req from the active library, got %s (%v)", f.Text(), err)
		}
		t0 = time.Now()
		if err := p.Send(mkFrame(f.Session(), 0, 0, 0, 2, f.Sys(), nil)); err != nil {
			p.Close()
			return nil, t0, err
		}
	} else {
		t0 = time.Now()
		if err := p.Send(mkFrame(0xFFFF, 0, 0, 0, 1, sysOf(0x7e000001), nil)); err != nil {
			p.Close()
			return nil, t0, err
		}
		f, err := p.Recv(timeout)
		if err != nil || f.SType() != 2 || f.B3() != 0 {
			p.Close()
			return nil, t0, fmt.Errorf("endpoint: expected Select.rsp(0) from the passive library, got %s (%v)", f.Text(), err)
		}
	}
	if !ep.WaitState(hsms.SelectedState, timeout) {
		p.Close()
		return nil, t0, errors.New("endpoint: the library did not reach Selected")
	}
	return p, t0, nil
}
