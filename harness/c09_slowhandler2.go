package main

// C05 / C09, scenario family "the teardown of generation N GIVES UP on an application data handler that blocks the receive
// goroutine; generation N+1 is up and healthy; THEN the old handler returns".
//
// c09_slowhandler.go ends when the waiters of generation N have been released.  Here the history goes on: handlers run
// inline on the receive goroutine, so a handler that blocks longer than the close timeout makes the bounded teardown
// abandon that goroutine (Close returns the close-timeout error / the involuntary teardown logs it and moves on).  The
// abandoned goroutine belongs to generation N for good: when the handler finally returns it goes back to its own — long
// closed — socket and whatever it finds there (a read error; bytes the peer had written before the end) concerns
// generation N only.
//
//   teardown   close-reopen    Close() (returns the close-timeout error), then Open() again on the same connection object
//              linktest-drop   involuntary: the peer stops answering, the auto-linktest (threshold 1) drops the link (the
//                              blocked receive goroutine cannot notice anything), automatic reconnect / re-accept
//              write-drop      involuntary: the peer closes the TCP connection, a send's write error drops the link,
//                              automatic reconnect / re-accept
//   role       active | passive (loopback TCP, harness-owned listener / dialer: peer.go Endpoint)
//
// In every history the peer had written one more primary on generation N's socket behind the one whose handler blocks
// (unread when the generation ends).  Generation N+1 reaches Selected against a healthy peer (which answers probes and
// W-bit primaries) and carries a round trip; the notifier has settled; then the old handler is released and N+1 is watched.
//
// Oracle later-generation-disturbed-by-stale-receiver (implementation side; C05: a Selected -> NotConnected change needs a
// cause OF THAT connection, no change is replayed by later processing of an earlier event; C09: nothing of generation N
// acts on N+1): from the release on State() stays Selected, NO state notification is delivered, the library makes no
// further connection (active role), no data message of generation N's socket is delivered to the application, and a fresh
// W-bit send on N+1 gets its reply.  A history that misbehaves is run again with every timer x3 before it is reported.

import (
	"context"
	"errors"
	"fmt"
	"net"
	"strings"
	"sync"
	"sync/atomic"
	"time"

	"github.com/arloliu/go-secs/v2/hsms"
	"github.com/arloliu/go-secs/v2/secs2"
)

type sh2Spec struct {
	Name     string `json:"name"`
	Active   bool   `json:"active"`
	Teardown string `json:"teardown"` // close-reopen | linktest-drop | write-drop
	Twice    bool   `json:"twice"`    // two generations end with a blocked handler each; both are released after the third is up
}

// sh2Serve is the healthy peer of one generation: it answers Linktest.req and W-bit data primaries until the stream ends.
func sh2Serve(p *ScriptPeer, mute *atomic.Bool, wg *sync.WaitGroup) {
	defer wg.Done()
	for {
		f, err := p.Recv(time.Hour)
		if err != nil {
			return
		}
		if mute.Load() {
			continue
		}
		switch {
		case f.PType() == 0 && f.SType() == 5:
			_ = p.Send(mkFrame(0xFFFF, 0, 0, 0, 6, f.Sys(), nil))
		case f.PType() == 0 && f.SType() == 0 && f.B2()&0x80 != 0:
			_ = p.Send(mkFrame(f.Session(), f.B2()&0x7f, f.B3()+1, 0, 0, f.Sys(), nil))
		}
	}
}

// sh2Establish attaches the peer of the next generation and completes the select procedure, retrying while the library is
// still busy tearing the previous generation down.
func sh2Establish(ep *Endpoint, first bool, budget time.Duration) (*ScriptPeer, error) {
	deadline := time.Now().Add(budget)
	var last error
	for time.Now().Before(deadline) {
		if ep.Active || first {
			p, _, err := ep.EstablishSelected(2 * time.Second)
			if err == nil {
				return p, nil
			}
			last = err
			continue
		}
		raw, err := ep.DialRaw(time.Second)
		if err != nil {
			last = err
			time.Sleep(5 * time.Millisecond)
			continue
		}
		p := NewScriptPeer(raw)
		if err := p.Send(mkFrame(0xFFFF, 0, 0, 0, 1, sysOf(0x7e000002), nil)); err == nil {
			f, err := p.Recv(2 * time.Second)
			if err == nil && f.SType() == 2 && f.B3() == 0 {
				return p, nil
			}
			last = fmt.Errorf("expected Select.rsp(0), got %s (%v)", f.Text(), err)
		} else {
			last = err
		}
		p.Close()
		time.Sleep(5 * time.Millisecond)
	}
	return nil, fmt.Errorf("no new generation within %v: %v", budget, last)
}

// sh2RunOnce runs one history with every timer multiplied by scale.
func sh2RunOnce(sp sh2Spec, scale int) (fails []wfFail, replay map[string]any, staged string) {
	sc := time.Duration(scale)
	closeTimeout, dwell := 300*time.Millisecond*sc, 300*time.Millisecond*sc
	t0 := time.Now()
	var evMu sync.Mutex
	var events []string
	ev := func(format string, a ...any) {
		evMu.Lock()
		events = append(events, fmt.Sprintf("%7.1f ms  ", float64(time.Since(t0).Microseconds())/1000)+fmt.Sprintf(format, a...))
		evMu.Unlock()
	}
	replay = map[string]any{"family": "teardown gives up on a blocked inline handler; the successor is up; then the handler returns", "spec": sp,
		"timer_scale": scale, "close_timeout_ms": closeTimeout.Milliseconds(), "watched_ms": dwell.Milliseconds()}
	copts := []hsms.ConnOption{hsms.WithCloseTimeout(closeTimeout), hsms.WithT3(10 * time.Second), hsms.WithT6(10 * time.Second),
		hsms.WithReconnectBackoff(5*time.Millisecond, 1.5), hsms.WithWriteTimeout(5 * time.Second)}
	if sp.Teardown == "linktest-drop" {
		copts = append(copts, hsms.WithLinktestInterval(40*time.Millisecond*sc), hsms.WithT6(150*time.Millisecond*sc), hsms.WithLinktestFailThreshold(1))
	}
	ep, err := NewEndpoint(sp.Active, copts)
	if err != nil {
		return nil, replay, "config: " + err.Error()
	}
	type note struct {
		prev, next hsms.ConnState
	}
	var mu sync.Mutex
	var notes []note
	var delivered []string // "S<stream>F<fn> sb=<system bytes>"
	var releases []chan struct{}
	released := false
	entered := make(chan int, 8)
	ep.Conn.AddConnStateChangeHandler(func(prev, next hsms.ConnState) {
		mu.Lock()
		notes = append(notes, note{prev, next})
		mu.Unlock()
		ev("notification %v > %v", prev, next)
	})
	ep.Conn.AddDataMessageHandler(func(msg *hsms.DataMessage, _ hsms.SECS2Endpoint) {
		sb := msg.SystemBytes()
		mu.Lock()
		delivered = append(delivered, fmt.Sprintf("S%dF%d sb=%02x%02x%02x%02x", msg.Stream(), msg.Function(), sb[0], sb[1], sb[2], sb[3]))
		var rel chan struct{}
		if msg.Stream() == 77 && !released {
			rel = make(chan struct{})
			releases = append(releases, rel)
		}
		mu.Unlock()
		if rel != nil {
			ev("handler of S77F%d (generation %d's socket) entered: blocks", msg.Function(), int(sb[3]))
			entered <- int(sb[3])
			<-rel // a handler that ignores the connection's lifecycle
			ev("handler of S77F%d (generation %d's socket) returns", msg.Function(), int(sb[3]))
		}
	})
	var mute atomic.Bool
	var swg sync.WaitGroup
	var peers []*ScriptPeer
	releaseAll := func() {
		mu.Lock()
		if !released {
			released = true
			for _, r := range releases {
				close(r)
			}
		}
		mu.Unlock()
	}
	var extraMu sync.Mutex
	var extraConns []net.Conn
	done := func() {
		releaseAll()
		fin := make(chan struct{})
		go func() { ep.Shutdown(); close(fin) }()
		select {
		case <-fin:
		case <-time.After(closeTimeout + 10*time.Second):
		}
		for _, p := range peers {
			p.Close()
		}
		extraMu.Lock()
		for _, c := range extraConns {
			_ = c.Close()
		}
		extraMu.Unlock()
		swg.Wait()
		evMu.Lock()
		replay["timeline"] = append([]string(nil), events...)
		evMu.Unlock()
	}
	if err := ep.Open(); err != nil {
		done()
		return nil, replay, "open: " + err.Error()
	}
	roundTrip := func() string {
		ctx, cancel := context.WithTimeout(context.Background(), 5*time.Second*sc)
		defer cancel()
		var rc rCallResult
		reply, err := ep.Conn.SendDataMessage(ctx, 1, 1, true, secs2.NewUintItem(4, 1))
		rClassify(reply, err, &rc)
		if rc.Outcome != "reply" {
			return rc.Outcome + " " + rc.Err
		}
		return ""
	}
	settled := func() bool { // the notifier runs behind State(): the last notification delivered ends in Selected
		mu.Lock()
		defer mu.Unlock()
		return len(notes) > 0 && notes[len(notes)-1].next == hsms.SelectedState
	}
	gens := 1
	if sp.Twice {
		gens = 2
	}
	var cur *ScriptPeer
	for g := 0; g <= gens; g++ {
		p, err := sh2Establish(ep, g == 0, 10*time.Second)
		if err != nil {
			done()
			return nil, replay, fmt.Sprintf("generation %d: %v", g, err)
		}
		peers = append(peers, p)
		cur = p
		mute.Store(false)
		swg.Add(1)
		go sh2Serve(p, &mute, &swg)
		if !ep.WaitState(hsms.SelectedState, 5*time.Second) || !c09WaitFor(settled, 5*time.Second) {
			done()
			return nil, replay, fmt.Sprintf("generation %d did not reach Selected (state %v)", g, ep.Conn.State())
		}
		if s := roundTrip(); s != "" {
			done()
			return nil, replay, fmt.Sprintf("the round trip on generation %d returned %s", g, s)
		}
		ev("generation %d Selected, round trip done", g)
		if g == gens {
			break
		}
		// the primary whose handler blocks, and one more behind it that is still unread when the generation ends
		sess := ep.Conn.SessionID()
		if err := cur.Send(mkFrame(sess, 77, 1, 0, 0, sysOf(0x7a000000+uint32(g)), nil), mkFrame(sess, 78, 1, 0, 0, sysOf(0x7b000000+uint32(g)), nil)); err != nil {
			done()
			return nil, replay, "the peer could not write its primaries: " + err.Error()
		}
		select {
		case <-entered:
		case <-time.After(5 * time.Second):
			done()
			return nil, replay, "the blocking handler was never entered"
		}
		mu.Lock()
		nNotes := len(notes)
		mu.Unlock()
		switch sp.Teardown {
		case "close-reopen":
			tc := time.Now()
			err := ep.Conn.Close()
			ev("Close() returned %v after %v", err, time.Since(tc).Round(time.Millisecond))
			replay[fmt.Sprintf("close_result_generation_%d", g)] = fmt.Sprint(err)
			if err != nil && !errors.Is(err, hsms.ErrCloseTimeout) {
				done()
				return nil, replay, "Close returned " + err.Error()
			}
			if st := ep.Conn.State(); st != hsms.NotConnectedState {
				done()
				return nil, replay, fmt.Sprintf("State() after Close is %v", st)
			}
			if err := ep.Open(); err != nil {
				done()
				return nil, replay, "Open after the bounded Close: " + err.Error()
			}
		case "linktest-drop":
			mute.Store(true) // (the blocked receive goroutine would not read an answer anyway)
		case "write-drop":
			_ = cur.c.Close()
			detected := false
			for k := 0; k < 200 && !detected; k++ {
				ctx, cancel := context.WithTimeout(context.Background(), 2*time.Second)
				_, err := ep.Conn.SendDataMessage(ctx, 2, 1, false, secs2.NewUintItem(4, 9))
				cancel()
				if err != nil {
					ev("detecting send %d: %v", k, err)
					detected = true
				} else {
					time.Sleep(2 * time.Millisecond)
				}
			}
			if !detected {
				done()
				return nil, replay, "no send failed after the peer closed the connection"
			}
		}
		if sp.Teardown != "close-reopen" {
			// the involuntary teardown: ... -> NotConnected is notified once the state has changed
			ok := c09WaitFor(func() bool {
				mu.Lock()
				defer mu.Unlock()
				for _, n := range notes[nNotes:] {
					if n.next == hsms.NotConnectedState {
						return true
					}
				}
				return false
			}, 10*time.Second*sc)
			if !ok {
				done()
				return nil, replay, fmt.Sprintf("generation %d was not dropped (%s) within %v", g, sp.Teardown, 10*time.Second*sc)
			}
		}
	}
	// ---- the successor is up, healthy and settled: baseline, release, watch
	time.Sleep(10 * time.Millisecond * sc)
	if !settled() || ep.Conn.State() != hsms.SelectedState {
		done()
		return nil, replay, "the successor generation did not stay Selected before the release"
	}
	// active role: any further connection the library makes from now on is observed
	var moreDials atomic.Int64
	stopAccept := make(chan struct{})
	var awg sync.WaitGroup
	if sp.Active {
		awg.Add(1)
		go func() {
			defer awg.Done()
			for {
				select {
				case <-stopAccept:
					return
				default:
				}
				_ = ep.ln.(*net.TCPListener).SetDeadline(time.Now().Add(20 * time.Millisecond))
				c, err := ep.ln.Accept()
				if err == nil {
					moreDials.Add(1)
					ev("the library made a further connection")
					extraMu.Lock()
					extraConns = append(extraConns, c)
					extraMu.Unlock()
				}
			}
		}()
	}
	mu.Lock()
	n0, d0 := len(notes), len(delivered)
	mu.Unlock()
	tRel := time.Now()
	ev("the blocked handler(s) of the ended generation(s) are released")
	releaseAll()
	var leftAfter time.Duration
	var leftTo hsms.ConnState
	for time.Since(tRel) < dwell {
		if st := ep.Conn.State(); st != hsms.SelectedState && leftAfter == 0 {
			leftAfter, leftTo = time.Since(tRel), st
			ev("State() = %v", st)
		}
		time.Sleep(200 * time.Microsecond)
	}
	final := ""
	if leftAfter == 0 {
		final = roundTrip()
	}
	close(stopAccept)
	awg.Wait()
	mu.Lock()
	var newNotes, newDeliv []string
	for _, n := range notes[n0:] {
		newNotes = append(newNotes, fmt.Sprintf("%v>%v", n.prev, n.next))
	}
	for _, d := range delivered[d0:] {
		if !strings.HasPrefix(d, "S1F") { // (the peer's replies go to the waiting sender, never to the handler)
			newDeliv = append(newDeliv, d)
		}
	}
	allDeliv := append([]string(nil), delivered...)
	mu.Unlock()
	replay["delivered_to_the_application"] = allDeliv
	var why []string
	if leftAfter > 0 {
		why = append(why, fmt.Sprintf("State() left Selected (%v) %v after the release", leftTo, leftAfter.Round(100*time.Microsecond)))
	}
	if len(newNotes) > 0 {
		why = append(why, "notifications delivered: ["+strings.Join(newNotes, " ")+"]")
	}
	if n := moreDials.Load(); n > 0 {
		why = append(why, fmt.Sprintf("the library made %d further connection(s)", n))
	}
	if len(newDeliv) > 0 {
		why = append(why, "data messages of the ended generation's socket were delivered to the application: ["+strings.Join(newDeliv, " ")+"]")
	}
	if final != "" {
		why = append(why, "a fresh W-bit send on the successor returned "+final)
	}
	if len(why) > 0 {
		fails = append(fails, wfFail{"property", "later-generation-disturbed-by-stale-receiver", fmt.Sprintf(
			"%s, teardown %s: the successor generation was Selected against a healthy peer and had carried a round trip when the handler the teardown had given up on (close timeout %v) returned; nothing happened on the successor's own connection, yet: %s",
			map[bool]string{true: "active", false: "passive"}[sp.Active], sp.Teardown, closeTimeout, strings.Join(why, "; "))})
	}
	done()
	return fails, replay, ""
}

func sh2Specs(c *Ctx) []sh2Spec {
	var specs []sh2Spec
	for _, td := range []string{"close-reopen", "linktest-drop", "write-drop"} {
		for _, act := range []bool{false, true} {
			specs = append(specs, sh2Spec{Name: fmt.Sprintf("%s-%s", td, map[bool]string{true: "active", false: "passive"}[act]), Active: act, Teardown: td})
		}
	}
	specs = append(specs, sh2Spec{Name: "close-reopen-twice-passive", Teardown: "close-reopen", Twice: true},
		sh2Spec{Name: "write-drop-twice-active", Active: true, Teardown: "write-drop", Twice: true})
	if c.Thorough() {
		specs = append(specs, sh2Spec{Name: "close-reopen-twice-active", Active: true, Teardown: "close-reopen", Twice: true},
			sh2Spec{Name: "linktest-drop-twice-passive", Teardown: "linktest-drop", Twice: true},
			sh2Spec{Name: "linktest-drop-twice-active", Active: true, Teardown: "linktest-drop", Twice: true},
			sh2Spec{Name: "write-drop-twice-passive", Teardown: "write-drop", Twice: true})
	}
	return specs
}

// c09SlowHandlerSuccessor runs the family (for C09 and, through c05Extra, for C05).
func c09SlowHandlerSuccessor(c *Ctx) {
	specs := sh2Specs(c)
	t0 := time.Now()
	var wg sync.WaitGroup
	sem := make(chan struct{}, 4)
	for _, sp := range specs {
		sp := sp
		wg.Add(1)
		sem <- struct{}{}
		go func() {
			defer wg.Done()
			defer func() { <-sem }()
			var fails []wfFail
			var replay map[string]any
			var staged string
			for attempt, scale := range []int{1, 3, 6} {
				fails, replay, staged = sh2RunOnce(sp, scale)
				if staged == "" && len(fails) == 0 {
					break
				}
				c.Stat("slow-handler-successor-retried-with-scaled-timers")
				wfRetryNote(c, "slowhandler-successor", sp.Name, scale, fails, staged)
				if staged == "" && attempt >= 1 {
					break // misbehaved twice
				}
			}
			c.Count("slowhandler-successor|"+sp.Name, true)
			c.Stat("scenario:blocked-handler-released-after-successor-selected")
			if staged != "" {
				c.Violate("correspondence", "scenario-did-not-start", "slowhandler-successor/"+sp.Name+": "+staged, replay)
				return
			}
			for _, f := range fails {
				c.Violate(f.kind, f.what, "slowhandler-successor/"+sp.Name+": "+f.detail, replay)
			}
			if len(fails) == 0 && sp.Name == "close-reopen-passive" {
				c.Sample(map[string]any{"scenario": "slowhandler-successor/" + sp.Name, "timeline": replay["timeline"]})
			}
		}()
	}
	wg.Wait()
	c.StatN("slow-handler-successor-wall-ms", int(time.Since(t0).Milliseconds()))
}
