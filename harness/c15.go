package main

import (
	"encoding/hex"
	"fmt"
	"math"
	"regexp"
	"sort"
	"strconv"
	"strings"

	"github.com/arloliu/go-secs/v2/secs2"
	"github.com/arloliu/go-secs/v2/sml"
)

func init() {
	register("C15", "item trees from C01's generators (16 format codes x boundary element counts x constructor shapes, list child-count "+
		"boundaries, nesting 0..64, random trees, empty-item placements, extreme numerics) each rendered by Item.ToSML, sml.Encode, the decoded "+
		"(raw-backed) twin and the Lean model; every numeric/boolean/binary leaf parsed back; distinct = distinct protocol text of the logical tree; "+
		"non-trivial = the tree has at least one element or child", runC15)
}

// ---------- shared SML helpers (C13, C14, C15) ----------

// c15SmlDict accumulates oracle dictionary entries (DESIGN 4.4): results of the Go standard library
// that the Lean model takes as parameters.
type c15SmlDict struct {
	m map[string]string
}

func c15NewSMLDict() *c15SmlDict { return &c15SmlDict{m: map[string]string{}} }

func (d *c15SmlDict) String() string {
	if len(d.m) == 0 {
		return "-"
	}
	ks := make([]string, 0, len(d.m))
	for k := range d.m {
		ks = append(ks, k)
	}
	sort.Strings(ks)
	var sb strings.Builder
	for i, k := range ks {
		if i > 0 {
			sb.WriteByte(',')
		}
		sb.WriteString(k)
		sb.WriteByte('=')
		sb.WriteString(d.m[k])
	}
	return sb.String()
}

// addItem adds the float renderings and strconv.Quote results an encoder needs for this tree.
func (d *c15SmlDict) addItem(it *LItem) {
	switch it.Kind {
	case "L":
		for _, k := range it.Kids {
			d.addItem(k)
		}
	case "F":
		for _, b := range it.Bits {
			key := fmt.Sprintf("f%d:%d", it.W, b)
			if _, ok := d.m[key]; ok {
				continue
			}
			var s string
			if it.W == 4 {
				s = strconv.FormatFloat(float64(math.Float32frombits(uint32(b))), 'G', 9, 32)
			} else {
				s = strconv.FormatFloat(math.Float64frombits(b), 'G', 17, 64)
			}
			d.m[key] = hexs([]byte(s))
		}
	case "W":
		ascii := true
		for _, c := range it.Bytes {
			if c >= 0x80 {
				ascii = false
				break
			}
		}
		if !ascii {
			d.m["q:"+hexs(it.Bytes)] = hexs([]byte(strconv.Quote(string(it.Bytes))))
		}
	}
}

func c15IsNumTokByte(c byte) bool {
	return c >= '0' && c <= '9' || c >= 'a' && c <= 'z' || c >= 'A' && c <= 'Z' || c == '_' || c == '+' || c == '-' || c == '.'
}

// addText adds parse results for every token the parser model can look up in this text: the
// suffixes (offsets 0..3, or all of them when deep is set) of every maximal run of bytes a strconv
// numeric parser can accept. Decimal / 0x / 0b tokens are computed by the model itself, but
// shipping them too is harmless (the model never asks).
func (d *c15SmlDict) addText(text string, deep bool) {
	d.addUnquote(text, deep)
	n := len(text)
	for i := 0; i < n; {
		if !c15IsNumTokByte(text[i]) {
			i++
			continue
		}
		j := i
		for j < n && c15IsNumTokByte(text[j]) {
			j++
		}
		maxOff := 4
		if deep {
			maxOff = j - i
		}
		for off := 0; off < maxOff && i+off < j; off++ {
			d.addTok(text[i+off : j])
		}
		i = j
	}
}

// addUnquote adds strconv.Unquote results for every text between a double quote and a later
// double quote that is directly followed by '>' (what parseLocalizedStr may hand to Unquote), if it
// contains a backslash. Openers are limited to the nearest maxOpen preceding quotes unless deep.
func (d *c15SmlDict) addUnquote(text string, deep bool) {
	var quotes []int
	for i := 0; i < len(text); i++ {
		if text[i] != '"' {
			continue
		}
		if i+1 < len(text) && text[i+1] == '>' {
			lo := 0
			if !deep && len(quotes) > 6 {
				lo = len(quotes) - 6
			}
			for _, o := range quotes[lo:] {
				body := text[o+1 : i]
				if strings.IndexByte(body, '\\') < 0 {
					continue
				}
				key := "uq:" + hexs([]byte(body))
				if _, ok := d.m[key]; ok {
					continue
				}
				if u, err := strconv.Unquote(`"` + body + `"`); err == nil {
					d.m[key] = hexs([]byte(u))
				} else {
					d.m[key] = "x"
				}
			}
		}
		quotes = append(quotes, i)
	}
}

func (d *c15SmlDict) addTok(tok string) {
	h := hexs([]byte(tok))
	if _, ok := d.m["pi:"+h]; ok {
		return
	}
	if len(tok) > 400 { // no 64-bit literal is that long unless it is padded with zeros/underscores; still ask Go
		// fallthrough: compute anyway, it is cheap
	}
	if v, err := strconv.ParseInt(tok, 0, 64); err == nil {
		d.m["pi:"+h] = strconv.FormatInt(v, 10)
	} else {
		d.m["pi:"+h] = "x"
	}
	if v, err := strconv.ParseUint(tok, 0, 64); err == nil {
		d.m["pu:"+h] = strconv.FormatUint(v, 10)
	} else {
		d.m["pu:"+h] = "x"
	}
	if v, err := strconv.ParseFloat(tok, 32); err == nil {
		d.m["p4:"+h] = strconv.FormatUint(uint64(math.Float32bits(float32(v))), 10)
	} else {
		d.m["p4:"+h] = "x"
	}
	if v, err := strconv.ParseFloat(tok, 64); err == nil {
		d.m["p8:"+h] = strconv.FormatUint(math.Float64bits(v), 10)
	} else {
		d.m["p8:"+h] = "x"
	}
}

func c15HexText(s string) string { return hexs([]byte(s)) }

func c15UnhexText(h string) string {
	if h == "-" {
		return ""
	}
	b, err := hex.DecodeString(h)
	if err != nil {
		return "!bad-hex:" + h
	}
	return string(b)
}

// c15WalkLeaves calls f for every non-list node of the real item tree.
func c15WalkLeaves(it secs2.Item, f func(secs2.Item)) {
	if it.IsList() {
		kids, _ := it.ToList()
		for _, k := range kids {
			c15WalkLeaves(k, f)
		}
		return
	}
	f(it)
}

func c15IsNumericLeaf(it secs2.Item) bool {
	return it.IsBinary() || it.IsBoolean() || it.IsInt8() || it.IsInt16() || it.IsInt32() || it.IsInt64() ||
		it.IsUint8() || it.IsUint16() || it.IsUint32() || it.IsUint64() || it.IsFloat32() || it.IsFloat64()
}

func c15OnlyNumericLeaves(it *LItem) bool {
	switch it.Kind {
	case "L":
		for _, k := range it.Kids {
			if !c15OnlyNumericLeaves(k) {
				return false
			}
		}
		return true
	case "A", "J", "W", "E":
		return false
	}
	return true
}

// ---------- C15 ----------

func runC15(c *Ctx) {
	cases := c01Cases(c)
	// extreme numerics, every width, in one list each
	ext := &LItem{Kind: "L"}
	for _, w := range []int{1, 2, 4, 8} {
		lo, hi := intRange(w)
		ext.Kids = append(ext.Kids, &LItem{Kind: "I", W: w, Ints: []int64{lo, lo + 1, -1, 0, 1, hi - 1, hi}})
		ext.Kids = append(ext.Kids, &LItem{Kind: "U", W: w, Uints: []uint64{0, 1, uintMax(w) - 1, uintMax(w)}})
	}
	f4 := &LItem{Kind: "F", W: 4}
	for _, b := range f32Special {
		if f := math.Float32frombits(b); f != f {
			b |= 0x00400000
		}
		f4.Bits = append(f4.Bits, uint64(b))
	}
	f8 := &LItem{Kind: "F", W: 8, Bits: append([]uint64(nil), f64Special...)}
	ext.Kids = append(ext.Kids, f4, f8)
	cases = append(cases, c01Case{ext, 0, "extreme-numerics"}, c01Case{f4, 1, "extreme-numerics"}, c01Case{f8, 1, "extreme-numerics"})

	type pending struct {
		idx          int
		tosml, encd  string
		replay       map[string]any
		modelSkipped bool
	}
	var pend []pending
	var lines []string
	for i, cs := range cases {
		supplied := cs.it
		logical := cs.it.Normalize()
		text := logical.Text()
		c.Count(text, len(text) > 4)
		c.Stat("tag:" + cs.tag)
		c.Stat("kind:" + logical.Kind)
		replay := map[string]any{"item": clip(text, 4000), "shape": cs.shape, "tag": cs.tag}
		var item secs2.Item
		if p := safely(func() { item = Build(supplied, cs.shape) }); p != nil {
			c.Violate("property", "constructor-panic", fmt.Sprintf("constructor panicked: %v", p), replay)
			continue
		}
		if item.Error() != nil {
			continue // C15 quantifies over error-free items only
		}
		var a, b string
		if p := safely(func() { a = item.ToSML(); b = sml.Encode(item) }); p != nil {
			c.Violate("property", "render-panic", fmt.Sprintf("ToSML / sml.Encode panicked: %v", p), replay)
			continue
		}
		if i%997 == 0 || (cs.tag != "random" && i%311 == 0) {
			c.Sample(map[string]any{"tag": cs.tag, "item": clip(text, 160), "sml": clip(a, 200)})
		}
		if a != b {
			c.Violate("property", "encode-differs-from-tosml", fmt.Sprintf("sml.Encode(item) != item.ToSML(): %q vs %q", clip(b, 200), clip(a, 200)), replay)
		}
		if ae := string(sml.NewEncoder().AppendEncode([]byte("xy"), item)); ae != "xy"+b {
			c.Violate("property", "appendencode-differs", "AppendEncode does not append Encode's text to the prefix", replay)
		}
		// the decoded (raw-backed, lazily materialised) twin must render identically
		if enc := item.ToBytes(); len(enc) > 0 {
			if dec, err := secs2.Decode(enc); err == nil {
				var da, db string
				if p := safely(func() { da = dec.ToSML(); db = sml.Encode(dec) }); p != nil {
					c.Violate("property", "render-panic-decoded", fmt.Sprintf("rendering a decoded item panicked: %v", p), replay)
				} else if (da != a || db != a) && !c15HasNaNPayload(logical) {
					c.Violate("property", "decoded-item-renders-differently", fmt.Sprintf("decoded twin renders %q / %q, constructed item %q", clip(da, 160), clip(db, 160), clip(a, 160)), replay)
				}
				c.Stat("decoded-twin")
			}
		}
		// parse-back of every numeric / boolean / binary leaf (non-strict and strict parser)
		nleaf := 0
		c15WalkLeaves(item, func(leaf secs2.Item) {
			if !c15IsNumericLeaf(leaf) || nleaf >= 24 {
				return
			}
			nleaf++
			c15ParseBack(c, leaf, leaf.ToSML(), replay)
		})
		if c15OnlyNumericLeaves(logical) && logical.Kind == "L" {
			c15ParseBack(c, item, a, replay)
			c.Stat("whole-tree-parse-back")
		}
		if c.Lean != nil {
			d := c15NewSMLDict()
			d.addItem(logical)
			ds := d.String()
			lines = append(lines, "sml.tosml "+ds+" "+text, "sml.encode 0 d n 0 2020 "+ds+" "+text)
			pend = append(pend, pending{idx: i, tosml: a, encd: b, replay: replay})
		}
	}
	if c.Lean != nil {
		ans := c.Lean.AskAll(lines)
		for j, p := range pend {
			if got := ans[2*j]; got != c15HexText(p.tosml) {
				c.Violate("correspondence", "model-tosml-differs", fmt.Sprintf("Item.ToSML %q, model %q", clip(p.tosml, 200), clip(c15UnhexText(got), 200)), p.replay)
			}
			if got := ans[2*j+1]; got != c15HexText(p.encd) {
				c.Violate("correspondence", "model-encode-differs", fmt.Sprintf("sml.Encode %q, model %q", clip(p.encd, 200), clip(c15UnhexText(got), 200)), p.replay)
			}
		}
		c.Res.Traces = len(pend)
	}
	c15TokenSweep(c)
}

func c15HasNaNPayload(it *LItem) bool { return false } // NaN renders as "NaN" whatever the payload

// c15ParseBack: "<item>" as the body of S1F1 must parse (both modes) to an Equal item.
func c15ParseBack(c *Ctx, orig secs2.Item, text string, replay map[string]any) {
	input := "S1F1\n" + text + "\n."
	for _, strict := range []bool{false, true} {
		var msgs []*c15SmlMsg
		var err error
		if p := safely(func() { msgs, err = c15SmlParseReal(input, strict) }); p != nil {
			c.Violate("property", "parse-back-panic", fmt.Sprintf("parser panicked on rendered item %q: %v", clip(text, 200), p), replay)
			return
		}
		c.Stat("leaf-parse-back")
		if err != nil || len(msgs) != 1 {
			c.Violate("property", "parse-back-rejected", fmt.Sprintf("parser (strict=%v) rejects the rendering %q: %v", strict, clip(text, 200), err), replay)
			return
		}
		if !c15SmlSameValue(orig, msgs[0].body, false) {
			c.Violate("property", "parse-back-differs", fmt.Sprintf("parser (strict=%v) reads %q back as %s", strict, clip(text, 200), clip(Describe(msgs[0].body), 200)), replay)
			return
		}
	}
}

var c15ReLSH = regexp.MustCompile(`(^| )W \d+ `)

// c15SmlSameValue: equal item values, NaN payload bits aside (every NaN is "nan" in the canonical
// text) and, if ignoreLSH, the localized-string header aside.
func c15SmlSameValue(a, b secs2.Item, ignoreLSH bool) bool {
	da, db := Describe(a), Describe(b)
	if ignoreLSH {
		da = c15ReLSH.ReplaceAllString(da, "${1}W 0 ")
		db = c15ReLSH.ReplaceAllString(db, "${1}W 0 ")
	}
	return da == db && !strings.Contains(da, "!")
}

// c15SmlMsg is the harness view of a parsed message.
type c15SmlMsg struct {
	s, f uint8
	w    bool
	body secs2.Item
}

func c15SmlParseReal(input string, strict bool) ([]*c15SmlMsg, error) {
	p := sml.NewParser(sml.WithParserStrictMode(strict))
	ms, err := p.Parse(input)
	if err != nil {
		return nil, err
	}
	out := make([]*c15SmlMsg, 0, len(ms))
	for _, m := range ms {
		it, ierr := m.Item()
		if ierr != nil {
			return nil, fmt.Errorf("parsed message body: %w", ierr)
		}
		out = append(out, &c15SmlMsg{m.Stream(), m.Function(), m.WaitBit(), it})
	}
	return out, nil
}

// c15TokenSweep compares the model's decimal renderer / token parser with strconv on boundary and
// random integers (the model proves parseDec (showDec n) = n; this ties showDec to strconv).
func c15TokenSweep(c *Ctx) {
	if c.Lean == nil {
		return
	}
	var ints []int64
	for _, w := range []int{1, 2, 4, 8} {
		lo, hi := intRange(w)
		ints = append(ints, lo, lo+1, hi-1, hi)
	}
	for i := 0; i < 64; i++ {
		ints = append(ints, int64(1)<<uint(i)-1, -(int64(1) << uint(i)), int64(c.Rng.Uint64()))
	}
	for k, p := 0, int64(1); k < 19; k, p = k+1, p*10 {
		ints = append(ints, p-1, p, p+1, -p)
	}
	it := &LItem{Kind: "I", W: 8, Ints: ints}
	real := secs2.NewIntItem(8, ints)
	got := c.Lean.Ask("sml.tosml - " + it.Text())
	if got != c15HexText(real.ToSML()) {
		c.Violate("correspondence", "model-showint-differs", "decimal rendering of boundary int64 values differs from strconv", map[string]any{"item": clip(it.Text(), 2000)})
	}
	c.Count("token-sweep", true)
}
