package main

// C06, clause "the T3 timeout error, no earlier than T3 after the primary was WRITTEN": scenarios with a slow write.
//
// The peer side of the net.Pipe takes a few bytes of the primary and then stops reading for a chosen time, so the
// library's writev (and every sender queued behind it on the generation's write lock) takes a noticeable fraction of
// T3 - or more than T3.  "Written" is observed as the instant the peer finished reading the frame (net.Pipe: the
// library's Write returns right after that).  Only lower bounds on the library's side and generous upper bounds on
// the peer's side are asserted, so a loaded machine can make the check weaker but never raise a false alarm.

import (
	"context"
	"fmt"
	"sync"
	"time"

	"github.com/arloliu/go-secs/v2/hsms"
	"github.com/arloliu/go-secs/v2/secs2"
)

type c06SlowSpec struct {
	Name       string        `json:"name"`
	T3         time.Duration `json:"t3"`
	WriteDelay time.Duration `json:"write_delay"` // how long the peer sits on the half-read primary
	ReplyAfter time.Duration `json:"reply_after"` // <0: the peer stays silent; else it replies this long after it finished reading
	Senders    int           `json:"senders"`     // >1: the others queue on the write lock behind the slow write
}

type c06SlowCall struct {
	Idx        int           `json:"idx"`
	Outcome    string        `json:"outcome"`
	Err        string        `json:"err,omitempty"`
	CallToEnd  time.Duration `json:"call_to_end"`
	WriteToEnd time.Duration `json:"write_to_end"` // from "the peer finished reading the primary" to the call's return
	OnWire     bool          `json:"on_wire"`
}

func c06RunSlowWrite(c *Ctx, sp c06SlowSpec) {
	peer := newRPeer()
	conn, err := rNewConn(peer, rConnOpts{T3: sp.T3, WriteTimeout: 10 * time.Second})
	if err != nil {
		c.Violate("correspondence", "scenario-did-not-start", err.Error(), map[string]any{"spec": sp})
		return
	}
	defer func() { _ = conn.Close(); peer.closeAll() }()
	var mu sync.Mutex
	readT := map[int]int64{}  // sender -> wall clock the peer finished reading its primary
	replyT := map[int]int64{} // sender -> wall clock the peer's reply write returned (0 = no reply / not written)
	var rwg sync.WaitGroup
	peer.onFrame = func(g *rGen, f rFrame) {
		if !f.IsData() || f.Tag < 0 {
			return
		}
		i := int(f.Tag)
		mu.Lock()
		readT[i] = f.ReadT
		mu.Unlock()
		if sp.ReplyAfter >= 0 {
			rwg.Add(1)
			go func() {
				defer rwg.Done()
				time.Sleep(sp.ReplyAfter)
				out := peer.sendData(g, f.Stream(), f.Fn()+1, false, f.SB, f.Session)
				mu.Lock()
				replyT[i] = out.EndT
				mu.Unlock()
			}()
		}
	}
	octx, ocancel := context.WithTimeout(context.Background(), 10*time.Second)
	err = conn.Open(octx, hsms.OpenWaitSelected)
	ocancel()
	if err != nil {
		c.Violate("correspondence", "scenario-did-not-start", "open: "+err.Error(), map[string]any{"spec": sp})
		return
	}
	g := peer.last()
	g.stallAt.Store(7) // the next frame is taken only partially, then the peer stops reading
	go func() {
		deadline := time.Now().Add(5 * time.Second)
		for g.StallT.Load() == 0 && time.Now().Before(deadline) {
			time.Sleep(100 * time.Microsecond)
		}
		time.Sleep(sp.WriteDelay)
		g.unstall()
	}()
	calls := make([]c06SlowCall, sp.Senders)
	ends := make([]time.Time, sp.Senders)
	var wg sync.WaitGroup
	for i := 0; i < sp.Senders; i++ {
		i := i
		wg.Add(1)
		go func() {
			defer wg.Done()
			if i > 0 {
				time.Sleep(time.Duration(i) * 2 * time.Millisecond) // queue up behind sender 0's slow write
			}
			var res rCallResult
			start := time.Now()
			reply, err := conn.SendDataMessage(context.Background(), 1, 1, true, secs2.NewUintItem(4, uint32(i)))
			ends[i] = time.Now()
			rClassify(reply, err, &res)
			calls[i] = c06SlowCall{Idx: i, Outcome: res.Outcome, Err: res.Err, CallToEnd: ends[i].Sub(start)}
		}()
	}
	fin := make(chan struct{})
	go func() { wg.Wait(); close(fin) }()
	select {
	case <-fin:
	case <-time.After(sp.WriteDelay + 4*sp.T3 + 10*time.Second):
		c.Violate("property", "send-never-returned", "a slow-write sender did not return", map[string]any{"spec": sp})
		return
	}
	rwg.Wait()
	replay := map[string]any{"spec": sp, "calls": calls}
	nontrivial := false
	for i := range calls {
		cl := &calls[i]
		mu.Lock()
		rt, onWire := readT[i]
		rep := replyT[i]
		mu.Unlock()
		cl.OnWire = onWire
		if !onWire {
			c.Violate("correspondence", "slow-write-primary-not-seen", fmt.Sprintf("call %d returned %s but the peer never read its primary", i, cl.Outcome), replay)
			continue
		}
		cl.WriteToEnd = time.Duration(ends[i].UnixNano() - rt)
		c.Stat("slow-write-outcome:" + cl.Outcome)
		switch {
		case cl.Outcome == "timeout":
			nontrivial = true
			if cl.WriteToEnd < sp.T3*9/10 {
				c.Violate("property", "t3-early-after-slow-write", fmt.Sprintf("call %d: the write took %v (peer finished reading %v after the call began), the T3 error came %v after the primary was written; T3 = %v",
					i, cl.CallToEnd-cl.WriteToEnd, cl.CallToEnd-cl.WriteToEnd, cl.WriteToEnd, sp.T3), replay)
			}
			// a reply that the peer had completely written well inside the reply window must win over the timer
			if rep != 0 && time.Duration(rep-rt) < sp.T3*6/10 {
				c.Violate("property", "reply-within-t3-of-write-returned-as-timeout", fmt.Sprintf("call %d: the peer's reply was fully written %v after the primary was written (T3 = %v) yet the call returned the T3 error",
					i, time.Duration(rep-rt), sp.T3), replay)
			}
		case cl.Outcome == "reply":
			if sp.ReplyAfter < 0 {
				c.Violate("property", "reply-not-sent-by-peer", fmt.Sprintf("call %d returned a reply from a silent peer", i), replay)
			}
		default:
			c.Violate("property", "undocumented-outcome", fmt.Sprintf("slow-write call %d returned %s (%s)", i, cl.Outcome, cl.Err), replay)
		}
	}
	c.Count(fmt.Sprintf("slowwrite|%s|%d|%v", sp.Name, sp.Senders, sp.ReplyAfter >= 0), nontrivial)
	if len(c.Res.Samples) < 8 {
		c.Sample(map[string]any{"scenario": "slow-write/" + sp.Name, "t3": sp.T3.String(), "write_delay": sp.WriteDelay.String(), "calls": calls})
	}
}

// c06SlowWrites runs the slow-write family.
func c06SlowWrites(c *Ctx) {
	t3 := 400 * time.Millisecond
	specs := []c06SlowSpec{
		{Name: "write-0.7T3-silent", T3: t3, WriteDelay: t3 * 7 / 10, ReplyAfter: -1, Senders: 1},
		{Name: "write-1.3T3-silent", T3: t3, WriteDelay: t3 * 13 / 10, ReplyAfter: -1, Senders: 1},
		{Name: "write-0.8T3-reply-0.3T3", T3: t3, WriteDelay: t3 * 8 / 10, ReplyAfter: t3 * 3 / 10, Senders: 1},
		{Name: "write-0.6T3-queued-senders-silent", T3: t3, WriteDelay: t3 * 6 / 10, ReplyAfter: -1, Senders: 3},
	}
	if c.Thorough() {
		specs = append(specs,
			c06SlowSpec{Name: "write-2T3-reply-0.2T3", T3: t3, WriteDelay: 2 * t3, ReplyAfter: t3 * 2 / 10, Senders: 2},
			c06SlowSpec{Name: "write-0.9T3-silent", T3: t3, WriteDelay: t3 * 9 / 10, ReplyAfter: -1, Senders: 4})
	}
	for _, sp := range specs {
		if routerStop(c) {
			return
		}
		c06RunSlowWrite(c, sp)
	}
}
