package main

// C09, graceful Close against a peer that stopped reading, with a send still waiting for its reply and a data-path
// write timeout far above the close timeout: the farewell Separate the library writes on its own behalf before it
// tears the generation down has its own short bound, so the waiting send is released promptly (connection-closed)
// and Close returns within its timeout. Over net.Pipe, where even 14 bytes block until the peer reads. Added after
// seeded change C09f-2 (the farewell write inheriting the data path's write timeout).

import (
	"context"
	"errors"
	"fmt"
	"io"
	"time"

	"github.com/arloliu/go-secs/v2/hsms"
	"github.com/arloliu/go-secs/v2/secs2"
)

func c09Farewell(c *Ctx) {
	for _, passive := range []bool{false, true} {
		var bad, detail string
		var info map[string]any
		for _, scale := range []int{1, 3} {
			bad, detail, info = c09FarewellRun(passive, scale)
			if bad == "" {
				break
			}
			c.Stat("farewell:retry")
		}
		c.Count(fmt.Sprintf("farewell|%v", passive), true)
		c.Stat("farewell-close-against-wedged-peer")
		if bad != "" {
			kind := "property"
			if bad == "cut-setup" {
				kind = "correspondence"
			}
			c.Violate(kind, bad, detail, info)
		}
	}
}

func c09FarewellRun(passive bool, scale int) (string, string, map[string]any) {
	closeTO := 2 * time.Second * time.Duration(scale)
	conn, client, err := c04OpenPipeRole(passive, nil, hsms.WithWriteTimeout(8*time.Second*time.Duration(scale)), hsms.WithCloseTimeout(closeTO),
		hsms.WithT3(20*time.Second*time.Duration(scale)), hsms.WithT8(20*time.Second*time.Duration(scale)))
	if err != nil {
		return "cut-setup", "cannot bring a pipe connection to Selected: " + err.Error(), nil
	}
	defer client.Close()
	info := map[string]any{"role_passive": passive, "close_timeout_ms": closeTO.Milliseconds(), "write_timeout_ms": (8 * time.Second * time.Duration(scale)).Milliseconds()}
	type res struct {
		err error
		at  time.Time
	}
	sent := make(chan res, 1)
	go func() {
		ctx, cancel := context.WithTimeout(context.Background(), 30*time.Second*time.Duration(scale))
		defer cancel()
		_, e := conn.SendDataMessage(ctx, 1, 1, true, secs2.NewASCIIItem("waiting"))
		sent <- res{e, time.Now()}
	}()
	// the peer reads the primary (14 + 9 bytes) and then never reads again
	buf := make([]byte, 23)
	_ = client.SetReadDeadline(time.Now().Add(5 * time.Second))
	if _, err := io.ReadFull(client, buf); err != nil {
		return "cut-setup", "the primary never reached the peer: " + err.Error(), info
	}
	time.Sleep(50 * time.Millisecond)
	t0 := time.Now()
	closed := make(chan res, 1)
	go func() { e := conn.Close(); closed <- res{e, time.Now()} }()
	bound := closeTO/2 + 500*time.Millisecond // far below the data path's write timeout, above the farewell's own bound
	select {
	case r := <-sent:
		d := r.at.Sub(t0)
		info["sender_released_ms"] = d.Milliseconds()
		if r.err == nil || !(errors.Is(r.err, hsms.ErrConnClosed) || errors.Is(r.err, context.Canceled)) {
			info["sender_err"] = fmt.Sprint(r.err)
		}
		if d > bound {
			return "waiting-send-not-released-promptly", fmt.Sprintf("Close began; the send waiting for its reply was released only after %v (bound %v, close timeout %v)", d, bound, closeTO), info
		}
	case <-time.After(closeTO + 3*time.Second*time.Duration(scale)):
		return "waiting-send-not-released-promptly", fmt.Sprintf("Close began; the send waiting for its reply is still parked %v later (close timeout %v)", closeTO+3*time.Second*time.Duration(scale), closeTO), info
	}
	select {
	case r := <-closed:
		info["close_ms"] = r.at.Sub(t0).Milliseconds()
		if r.at.Sub(t0) > closeTO+time.Second*time.Duration(scale) {
			return "close-timeout", fmt.Sprintf("Close took %v (close timeout %v)", r.at.Sub(t0), closeTO), info
		}
	case <-time.After(closeTO + 4*time.Second*time.Duration(scale)):
		return "close-never-returned", fmt.Sprintf("Close still blocked %v after it began (close timeout %v)", closeTO+4*time.Second*time.Duration(scale), closeTO), info
	}
	return "", "", info
}
