package main

import (
	"encoding/hex"
	"errors"
	"fmt"
	"math"
	"math/rand/v2"
	"strconv"
	"strings"
	"unicode"
	"unicode/utf8"

	"github.com/arloliu/go-secs/v2/hsms"
	"github.com/arloliu/go-secs/v2/secs2"
	"github.com/arloliu/go-secs/v2/sml"
)

func init() {
	register("C13", "messages over the stated item grammar: ASCII items with every single byte 0..255 and every pair from the grammar-interacting set "+
		"in first/middle/last position and inside nested lists, numeric extremes incl. NaN/Inf/-0/subnormals, binary, boolean, JIS-8 and localized text "+
		"outside the excluded classes, random trees, empty body; x all 3x3x2 quote/SF-quote/binary-style combinations x 6 indent units; plus free-form "+
		"parser-accepted texts (size forms, comments, names, hex/binary literals, escapes) re-encoded and re-parsed; distinct = distinct (options, message text); "+
		"non-trivial = body is not empty", runC13)
}

// ---------- encoder options ----------

type c13SmlOpts struct {
	strict bool
	aq, sq int // 0 double, 1 single, 2 none
	bin    bool
	indent string
}

var c13QuoteStyles = []sml.QuoteStyle{sml.QuoteDouble, sml.QuoteSingle, sml.QuoteNone}

func (o c13SmlOpts) real() []sml.EncoderOption {
	bs := sml.BinaryHex
	if o.bin {
		bs = sml.BinaryLiteral
	}
	return []sml.EncoderOption{sml.WithEncoderStrictMode(o.strict), sml.WithASCIIQuote(c13QuoteStyles[o.aq]), sml.WithSFQuote(c13QuoteStyles[o.sq]),
		sml.WithBinaryStyle(bs), sml.WithIndent(o.indent)}
}

func c13B01(b bool) string {
	if b {
		return "1"
	}
	return "0"
}

func (o c13SmlOpts) proto() string {
	return fmt.Sprintf("%s %c %c %s %s", c13B01(o.strict), "dsn"[o.aq], "dsn"[o.sq], c13B01(o.bin), c15HexText(o.indent))
}

var c13SmlIndents = []string{"  ", "", "\t", " ", "    ", " \t", "\r\n "}

func c13AllStrictOpts() []c13SmlOpts {
	var out []c13SmlOpts
	for aq := 0; aq < 3; aq++ {
		for sq := 0; sq < 3; sq++ {
			for _, bin := range []bool{false, true} {
				for _, ind := range c13SmlIndents {
					out = append(out, c13SmlOpts{true, aq, sq, bin, ind})
				}
			}
		}
	}
	return out
}

// ---------- outcome of the real parser, in the model's vocabulary ----------

// c13SmlOutcome runs the real parser and renders the result the way Drv/Sml.lean's showRes does.
// entry: all (Parser.Parse) | one (ParseMessage) | hdr (ParseHeader).
func c13SmlOutcome(entry string, strict bool, input string) (out string, panicMsg string) {
	defer func() {
		if r := recover(); r != nil {
			out, panicMsg = "panic", fmt.Sprint(r)
		}
	}()
	p := sml.NewParser(sml.WithParserStrictMode(strict))
	var msgs []*hsms.DataMessage
	var err error
	switch entry {
	case "all":
		msgs, err = p.Parse(input)
	case "one":
		var m *hsms.DataMessage
		m, err = p.ParseMessage(input)
		if m != nil {
			msgs = []*hsms.DataMessage{m}
		}
	default:
		var m *hsms.DataMessage
		m, err = p.ParseHeader(input)
		if m != nil {
			msgs = []*hsms.DataMessage{m}
		}
	}
	if err != nil {
		var pe *sml.ParseError
		switch {
		case errors.As(err, &pe):
			return fmt.Sprintf("syn %d %d %d", pe.Offset, pe.Line, pe.Col), ""
		case errors.Is(err, sml.ErrNoMessage):
			return "nomsg", ""
		default:
			return "plain", ""
		}
	}
	var sb strings.Builder
	fmt.Fprintf(&sb, "ok %d", len(msgs))
	for _, m := range msgs {
		it, ierr := m.Item()
		if ierr != nil {
			return "ok-but-body-undecodable", ""
		}
		fmt.Fprintf(&sb, " | %d %d %s %s", m.Stream(), m.Function(), c13B01(m.WaitBit()), Describe(it))
	}
	return sb.String(), ""
}

// c13SmlModelParse asks the model; it widens the oracle dictionary once if the answer depends on a
// token the dictionary lacks. Returns (alloc, depth, result).
func c13SmlModelParse(c *Ctx, entry string, strict bool, input string) (string, string, string) {
	d := c15NewSMLDict()
	d.addText(input, false)
	line := fmt.Sprintf("sml.parse %s %s %s %s", c13B01(strict), entry, d.String(), c15HexText(input))
	ans := c.Lean.Ask(line)
	if ans == "undetermined" {
		c.Stat("oracle-dictionary-widened")
		d.addText(input, true)
		ans = c.Lean.Ask(fmt.Sprintf("sml.parse %s %s %s %s", c13B01(strict), entry, d.String(), c15HexText(input)))
	}
	return c13SplitModelAns(ans)
}

func c13SplitModelAns(ans string) (string, string, string) {
	parts := strings.SplitN(ans, " ", 3)
	if len(parts) < 3 {
		return "", "", ans
	}
	return parts[0], parts[1], parts[2]
}

// ---------- generators over the C13 item grammar ----------

var c13GrammarBytes = []byte{'>', '<', '"', '\'', '\\', ' ', '.', '/', '*', '0', 'x', 'W', 0x00, 0x7f, 0x80, 0xff}

// c13CleanASCII: any byte except '>' (see known finding F6) — used where the case is about something else.
func c13CleanASCII(r *rand.Rand, n int) []byte {
	b := genBytes(r, n)
	for i := range b {
		if b[i] == '>' {
			b[i] = '}'
		}
	}
	return b
}

// c13Jis8Text: bytes outside the statement's excluded classes (quotes, backslash, angle brackets, control characters).
func c13Jis8Text(r *rand.Rand, n int) []byte {
	b := make([]byte, n)
	for i := range b {
		for {
			c := byte(r.IntN(256))
			if r.IntN(3) == 0 {
				c = byte(" ./*0xW:[]abc,;!?#"[r.IntN(18)])
			}
			if c < 0x20 || c == 0x7f || c == '"' || c == '\'' || c == '\\' || c == '<' || c == '>' {
				continue
			}
			b[i] = c
			break
		}
	}
	return b
}

var c13PrintableRunes = []rune("abcXYZ 019.,:;/*[]{}()!?#$%&+-=_@^~|`éüßñΩжשع漢字かな한€£¥©™√∞≠😀𝄞")

// Runes strconv.Quote escapes although they are not control characters (category Cc): the F8 class.
var c13QuoteEscapedRunes = []rune{0x00A0, 0x00AD, 0x200B, 0x2028, 0x2029, 0xFEFF, 0x0378, 0xE000, 0x061C, 0x180E}

// c13WText: valid UTF-8 over printable runes outside the excluded classes.
func c13WText(r *rand.Rand, n int) []byte {
	var sb strings.Builder
	for i := 0; i < n; i++ {
		sb.WriteRune(c13PrintableRunes[r.IntN(len(c13PrintableRunes))])
	}
	return []byte(sb.String())
}

// c13WInGrammar: text free of quote, backslash, angle-bracket and control characters (Unicode Cc),
// read literally: everything else, including what strconv.Quote chooses to escape, is inside.
func c13WInGrammar(s []byte) bool {
	for i := 0; i < len(s); {
		r, sz := utf8.DecodeRune(s[i:])
		if r == utf8.RuneError && sz == 1 {
			i++
			continue // not a character at all: raw byte of some other code page
		}
		if r == '"' || r == '\'' || r == '\\' || r == '<' || r == '>' || unicode.Is(unicode.Cc, r) {
			return false
		}
		i += sz
	}
	return true
}

func c13JInGrammar(s []byte) bool {
	for _, c := range s {
		if c < 0x20 || c == 0x7f || c == '"' || c == '\'' || c == '\\' || c == '<' || c == '>' {
			return false
		}
	}
	return true
}

// c13QuoteIsIdentity: strconv.Quote leaves the text as it is between the quotes.
func c13QuoteIsIdentity(s []byte) bool { return strconv.Quote(string(s)) == `"`+string(s)+`"` }

// c13Leaf: a leaf in the grammar; clean leaves avoid the two known-finding classes.
func c13Leaf(r *rand.Rand, kind string, n int, clean bool) *LItem {
	switch kind {
	case "A":
		if clean {
			return &LItem{Kind: "A", Bytes: c13CleanASCII(r, n)}
		}
		return &LItem{Kind: "A", Bytes: genBytes(r, n)}
	case "J":
		return &LItem{Kind: "J", Bytes: c13Jis8Text(r, n)}
	case "W":
		lshs := []uint16{0, 1, 2, 3, 8, 0xffff}
		it := &LItem{Kind: "W", LSH: lshs[r.IntN(len(lshs))], Bytes: c13WText(r, n)}
		if !clean && n > 0 && r.IntN(2) == 0 {
			it.Bytes = append(it.Bytes, []byte(string(c13QuoteEscapedRunes[r.IntN(len(c13QuoteEscapedRunes))]))...)
		}
		return it
	}
	return GenLeaf(r, kind, n)
}

func c13Tree(r *rand.Rand, depth int, budget *int, clean bool) *LItem {
	*budget--
	if depth <= 0 || *budget <= 0 || r.IntN(3) > 0 {
		k := kinds[1+r.IntN(len(kinds)-1)]
		return c13Leaf(r, k, smallCount(r)%40, clean)
	}
	n := r.IntN(5)
	it := &LItem{Kind: "L"}
	for i := 0; i < n && *budget > 0; i++ {
		it.Kids = append(it.Kids, c13Tree(r, depth-1, budget, clean))
	}
	return it
}

type c13Case struct {
	s, f uint8
	w    bool
	body *LItem // nil = empty body
	tag  string
}

func c13Cases(c *Ctx) []c13Case {
	r := c.Rng
	var cs []c13Case
	hdr := func(tag string, body *LItem) c13Case {
		s := uint8(r.IntN(128))
		f := uint8(r.IntN(256))
		w := r.IntN(2) == 0
		if w && f%2 == 0 {
			f++
		}
		return c13Case{s, f, w, body, tag}
	}
	A := func(b ...byte) *LItem { return &LItem{Kind: "A", Bytes: b} }
	// every single byte value, alone and embedded
	for v := 0; v < 256; v++ {
		cs = append(cs, hdr("ascii-byte", A(byte(v))), hdr("ascii-byte-embedded", A('x', byte(v), 'y')))
	}
	// every pair from the grammar-interacting set in every position class
	for _, a := range c13GrammarBytes {
		for _, b := range c13GrammarBytes {
			cs = append(cs, hdr("ascii-pair", A(a, b)))
			cs = append(cs, hdr("ascii-pair-middle", A('p', a, b, 'q')))
			cs = append(cs, hdr("ascii-pair-split", A(a, 'm', b)))
			cs = append(cs, hdr("ascii-pair-nested", Nest(&LItem{Kind: "L", Kids: []*LItem{A(a, b), A(b, 'z', a)}}, 1+r.IntN(3))))
		}
	}
	// wide runs of empty / shallow lists around deep branches (the nesting limit is per path; after seeded C13e-2)
	for _, it := range SiblingDepthCases() {
		cs = append(cs, hdr("sibling-depth", it))
	}
	// header extremes
	for _, s := range []uint8{0, 1, 9, 10, 99, 100, 126, 127} {
		for _, f := range []uint8{0, 1, 2, 9, 10, 99, 100, 254, 255} {
			for _, w := range []bool{false, true} {
				if w && f%2 == 0 {
					continue
				}
				cs = append(cs, c13Case{s, f, w, nil, "header"}, c13Case{s, f, w, A('o', 'k'), "header"})
			}
		}
	}
	// numeric extremes
	for _, w := range []int{1, 2, 4, 8} {
		lo, hi := intRange(w)
		cs = append(cs, hdr("numeric-extreme", &LItem{Kind: "I", W: w, Ints: []int64{lo, lo + 1, -1, 0, 1, hi - 1, hi}}))
		cs = append(cs, hdr("numeric-extreme", &LItem{Kind: "U", W: w, Uints: []uint64{0, 1, uintMax(w) - 1, uintMax(w)}}))
	}
	f4 := &LItem{Kind: "F", W: 4}
	for _, b := range f32Special {
		if f := math.Float32frombits(b); f != f {
			b |= 0x00400000
		}
		f4.Bits = append(f4.Bits, uint64(b))
	}
	cs = append(cs, hdr("numeric-extreme", f4), hdr("numeric-extreme", &LItem{Kind: "F", W: 8, Bits: append([]uint64(nil), f64Special...)}))
	var allB, allO []byte
	for v := 0; v < 256; v++ {
		allB = append(allB, byte(v))
		allO = append(allO, byte(v&1))
	}
	cs = append(cs, hdr("binary-all", &LItem{Kind: "B", Bytes: allB}), hdr("boolean", &LItem{Kind: "O", Bytes: allO}))
	// empty items of every type, alone and as list children
	empties := &LItem{Kind: "L"}
	for _, k := range kinds {
		e := &LItem{Kind: "L"}
		if k != "L" {
			e = c13Leaf(r, k, 0, true)
		}
		empties.Kids = append(empties.Kids, e)
		cs = append(cs, hdr("empty-item", e))
	}
	cs = append(cs, hdr("empty-item", empties), hdr("empty-body", nil))
	// JIS-8 / localized text in the grammar
	for i := 0; i < 60; i++ {
		cs = append(cs, hdr("jis8", c13Leaf(r, "J", 1+r.IntN(30), true)), hdr("localized", c13Leaf(r, "W", 1+r.IntN(20), true)))
	}
	// localized text with runes strconv.Quote escapes although they are not control characters,
	// and with bytes that are not UTF-8 at all (other code pages)
	for _, q := range c13QuoteEscapedRunes {
		cs = append(cs, hdr("localized-quote-escaped", &LItem{Kind: "W", LSH: 2, Bytes: []byte("a" + string(q) + "b")}))
	}
	cs = append(cs, hdr("localized-non-utf8", &LItem{Kind: "W", LSH: 8, Bytes: []byte{0x83, 0x65, 0x83, 0x58, 0x83, 0x67}}),
		hdr("localized-non-utf8", &LItem{Kind: "W", LSH: 4, Bytes: []byte{'c', 'a', 'f', 0xe9}}))
	// nesting
	for _, d := range []int{1, 2, 3, 8, 32, 63, 64} {
		cs = append(cs, hdr("nesting", Nest(c13Leaf(r, kinds[1+d%(len(kinds)-1)], 2, true), d)))
	}
	// random trees: mostly clean, some with the raw generators
	for i := 0; i < c.Pick(1500, 40000); i++ {
		budget := 1 + r.IntN(40)
		clean := i%8 == 0
		tag := "random-clean"
		if !clean {
			tag = "random-raw"
		}
		cs = append(cs, hdr(tag, c13Tree(r, r.IntN(6), &budget, clean)))
	}
	return cs
}

// ---------- the round-trip oracle ----------

// c13Classify says why a round trip of this body may fail for a reason already listed as a finding:
// it checks each leaf alone and returns the set of known-defect signatures covering *all* failing
// leaves, or "" if some failure is not covered.
func c13LeafFailsAlone(leaf *LItem, o c13SmlOpts) bool {
	item := Build(leaf, 0)
	msg, err := hsms.NewDataMessage(1, 1, false, 0, [4]byte{}, item)
	if err != nil {
		return true
	}
	text, err := sml.NewEncoder(o.real()...).EncodeMessage(msg)
	if err != nil {
		return true
	}
	var back []*c15SmlMsg
	if p := safely(func() { back, err = c15SmlParseReal(text, true) }); p != nil {
		return true
	}
	return err != nil || len(back) != 1 || !c15SmlSameValue(item, back[0].body, true)
}

func c13KnownCause(body *LItem, o c13SmlOpts) string {
	causes := map[string]bool{}
	uncovered := false
	var walk func(it *LItem)
	walk = func(it *LItem) {
		if it.Kind == "L" {
			for _, k := range it.Kids {
				walk(k)
			}
			return
		}
		if !c13LeafFailsAlone(it, o) {
			return
		}
		switch {
		case it.Kind == "A" && strings.IndexByte(string(it.Bytes), '>') >= 0:
			causes["strict-ascii-gt-unescaped"] = true
		case it.Kind == "W" && !c13QuoteIsIdentity(it.Bytes):
			causes["w-text-quote-escape-not-unquoted"] = true
		default:
			uncovered = true
		}
	}
	if body != nil {
		walk(body)
	}
	if uncovered || len(causes) == 0 {
		return ""
	}
	var ks []string
	for k := range causes {
		ks = append(ks, k)
	}
	if len(ks) == 1 {
		return ks[0]
	}
	return "strict-ascii-gt-unescaped+w-text-quote-escape-not-unquoted"
}

// c13Sanitized replaces the two known-finding triggers so that the rest of the tree is still tested.
func c13Sanitized(it *LItem) *LItem {
	switch it.Kind {
	case "L":
		out := &LItem{Kind: "L"}
		for _, k := range it.Kids {
			out.Kids = append(out.Kids, c13Sanitized(k))
		}
		return out
	case "A":
		return &LItem{Kind: "A", Bytes: []byte(strings.ReplaceAll(string(it.Bytes), ">", "}"))}
	case "W":
		if !c13QuoteIsIdentity(it.Bytes) {
			return &LItem{Kind: "W", LSH: it.LSH, Bytes: []byte("c13Sanitized")}
		}
	}
	return it
}

func c13InGrammar(it *LItem) bool {
	switch it.Kind {
	case "L":
		for _, k := range it.Kids {
			if !c13InGrammar(k) {
				return false
			}
		}
	case "J":
		return c13JInGrammar(it.Bytes)
	case "W":
		return c13WInGrammar(it.Bytes)
	case "E":
		return false
	}
	return true
}

// c13RoundTrip encodes, parses back and compares; it reports violations and returns the text.
func c13RoundTrip(c *Ctx, cs c13Case, o c13SmlOpts, replay map[string]any, depth int) {
	var item secs2.Item = secs2.NewEmptyItem()
	logical := &LItem{Kind: "E"}
	if cs.body != nil {
		item = Build(cs.body, 0)
		logical = cs.body.Normalize()
	}
	msg, err := hsms.NewDataMessage(cs.s, cs.f, cs.w, 0, [4]byte{1, 2, 3, 4}, item)
	if err != nil {
		c.Violate("correspondence", "message-construction", "generator produced an invalid message: "+err.Error(), replay)
		return
	}
	enc := sml.NewEncoder(o.real()...)
	var text string
	if p := safely(func() { text, err = enc.EncodeMessage(msg) }); p != nil {
		c.Violate("property", "encode-panic", fmt.Sprintf("EncodeMessage panicked: %v", p), replay)
		return
	}
	if err != nil {
		c.Violate("property", "encode-error", "EncodeMessage failed: "+err.Error(), replay)
		return
	}
	replay["text"] = clip(text, 2000)
	if t2, _ := sml.EncodeMessage(msg, o.real()...); t2 != text {
		c.Violate("property", "encode-shortcut-differs", "sml.EncodeMessage(msg, opts...) differs from NewEncoder(opts...).EncodeMessage(msg)", replay)
	}
	// model of the encoder
	if c.Lean != nil {
		d := c15NewSMLDict()
		d.addItem(logical)
		got := c.Lean.Ask(fmt.Sprintf("sml.encmsg %s %d %d %s %s %s", o.proto(), cs.s, cs.f, c13B01(cs.w), d.String(), logical.Text()))
		if got != c15HexText(text) {
			c.Violate("correspondence", "model-encmsg-differs", fmt.Sprintf("EncodeMessage %q, model %q", clip(text, 300), clip(c15UnhexText(got), 300)), replay)
		}
	}
	// strict parse
	goOut, pmsg := c13SmlOutcome("all", true, text)
	if c.Lean != nil {
		_, _, mo := c13SmlModelParse(c, "all", true, text)
		if mo != goOut {
			c.Violate("correspondence", "model-parse-differs", fmt.Sprintf("ParseStrict gives %q, model %q on %q", clip(goOut, 300), clip(mo, 300), clip(text, 300)), replay)
		}
	}
	want := fmt.Sprintf("ok 1 | %d %d %s %s", cs.s, cs.f, c13B01(cs.w), c15ReLSH.ReplaceAllString(logical.TextCanon(), "${1}W 0 "))
	got := c15ReLSH.ReplaceAllString(goOut, "${1}W 0 ")
	if got == want {
		// ParseMessage must agree with Parse
		if one, _ := c13SmlOutcome("one", true, text); one != goOut {
			c.Violate("property", "parsemessage-differs-from-parse", fmt.Sprintf("ParseMessage %q vs Parse %q", clip(one, 200), clip(goOut, 200)), replay)
		}
		return
	}
	detail := fmt.Sprintf("strict encoder output %q parses (strict) to %q, expected %q", clip(text, 400), clip(goOut, 300), clip(want, 300))
	if pmsg != "" {
		detail += " panic: " + pmsg
	}
	if cause := c13KnownCause(cs.body, o); cause != "" {
		for _, sig := range strings.Split(cause, "+") {
			c.Violate("property", sig, detail, replay)
		}
		c.Stat("roundtrip-failed:" + cause)
		if depth == 0 { // the rest of the tree must still round-trip
			cs2 := cs
			cs2.body = c13Sanitized(cs.body)
			cs2.tag += "-c13Sanitized"
			r2 := map[string]any{"item": clip(cs2.body.Text(), 4000), "opts": o.proto(), "tag": cs2.tag, "s": cs.s, "f": cs.f, "w": cs.w}
			c13RoundTrip(c, cs2, o, r2, 1)
		}
		return
	}
	c.Violate("property", "strict-roundtrip-differs", detail, replay)
}

func runC13(c *Ctx) {
	cases := c13Cases(c)
	opts := c13AllStrictOpts()
	for i, cs := range cases {
		// option combinations: all of them for the small directed classes (round-robin), random otherwise
		n := 1
		if cs.tag == "ascii-pair" || cs.tag == "header" || cs.tag == "empty-item" || cs.tag == "numeric-extreme" || cs.tag == "binary-all" {
			n = 3
		}
		for k := 0; k < n; k++ {
			o := opts[(i*7+k*41)%len(opts)]
			if strings.HasPrefix(cs.tag, "random") {
				o = opts[c.Rng.IntN(len(opts))]
			}
			text := "E"
			if cs.body != nil {
				text = cs.body.Normalize().Text()
			}
			key := fmt.Sprintf("%s|%d %d %v|%s", o.proto(), cs.s, cs.f, cs.w, text)
			c.Count(key, cs.body != nil)
			c.Stat("tag:" + cs.tag)
			c.Stat(fmt.Sprintf("opts:aq=%d,sq=%d,bin=%v", o.aq, o.sq, o.bin))
			replay := map[string]any{"item": clip(text, 4000), "opts": o.proto(), "tag": cs.tag, "s": cs.s, "f": cs.f, "w": cs.w}
			if i%401 == 0 && k == 0 {
				c.Sample(map[string]any{"tag": cs.tag, "opts": o.proto(), "item": clip(text, 160)})
			}
			c13RoundTrip(c, cs, o, replay, 0)
		}
	}
	if c.Lean != nil {
		c.Res.Traces = c.Res.Evaluations
	}
	c13AcceptedTexts(c, opts)
	if c.Thorough() {
		c13FloatSweep(c)
	}
}

// c13AcceptedTexts: free-form texts the strict parser accepts must re-encode and re-parse to an equal message.
func c13AcceptedTexts(c *Ctx, opts []c13SmlOpts) {
	r := c.Rng
	n := c.Pick(1200, 20000)
	accepted := 0
	for i := 0; i < n; i++ {
		budget := 1 + r.IntN(12)
		body := c13Tree(r, r.IntN(4), &budget, i%6 == 0)
		if i%15 == 0 {
			body = nil
		}
		nmsg := 1
		if i%10 == 0 {
			nmsg = 2
		}
		var sb strings.Builder
		for k := 0; k < nmsg; k++ {
			sb.WriteString(c13SmlFreeForm(r, body, true))
			sb.WriteString(c13SmlWS(r))
		}
		text := sb.String()
		c.Count("text|"+text, body != nil)
		c.Stat("tag:accepted-text-candidate")
		replay := map[string]any{"text": clip(text, 3000), "tag": "accepted-text"}
		goOut, pmsg := c13SmlOutcome("all", true, text)
		if c.Lean != nil {
			_, _, mo := c13SmlModelParse(c, "all", true, text)
			if mo != goOut && !(goOut == "panic") {
				c.Violate("correspondence", "model-parse-differs", fmt.Sprintf("ParseStrict gives %q, model %q on %q", clip(goOut, 300), clip(mo, 300), clip(text, 300)), replay)
			}
		}
		if goOut == "panic" {
			c.Violate("property", "parse-panic", "strict parser panicked: "+pmsg, replay)
			continue
		}
		msgs, err := c15SmlParseReal(text, true)
		if err != nil {
			c.Stat("free-form-rejected")
			continue
		}
		accepted++
		c.Stat("free-form-accepted")
		for _, m := range msgs {
			desc := Describe(m.body)
			lit, perr := c13ParseProtoItem(desc)
			if perr != nil {
				c.Violate("correspondence", "harness-describe-parse", "cannot re-read "+clip(desc, 200), replay)
				continue
			}
			if !m.body.IsEmpty() && !c13InGrammar(lit) {
				c.Stat("accepted-outside-grammar")
				continue
			}
			cs := c13Case{m.s, m.f, m.w, lit, "reencode"}
			if m.body.IsEmpty() {
				cs.body = nil
			}
			o := opts[r.IntN(len(opts))]
			r2 := map[string]any{"from_text": clip(text, 2000), "item": clip(desc, 3000), "opts": o.proto(), "tag": "reencode", "s": m.s, "f": m.f, "w": m.w}
			c.Stat("tag:reencode")
			c13RoundTrip(c, cs, o, r2, 0)
		}
	}
	if accepted*4 < n {
		c.Violate("correspondence", "free-form-generator-mostly-rejected", fmt.Sprintf("only %d of %d free-form texts were accepted by the strict parser; the generator no longer speaks the parser's language", accepted, n), nil)
	}
}

// c13FloatSweep (thorough): every float32 bit pattern in a strided sweep renders and parses back.
func c13FloatSweep(c *Ctx) {
	bad := 0
	for b := uint64(0); b < 1<<32; b += 257 {
		f := math.Float32frombits(uint32(b))
		s := strconv.FormatFloat(float64(f), 'G', 9, 32)
		v, err := strconv.ParseFloat(s, 32)
		if err != nil || (math.Float32bits(float32(v)) != uint32(b) && f == f) || (f != f && v == v) {
			bad++
			c.Violate("property", "float32-render-parse", fmt.Sprintf("float32 bits %#x renders %q and parses back to %v (%v)", b, s, v, err), map[string]any{"bits": b})
		}
	}
	c.StatN("float32-sweep", int((1<<32)/257))
	for i := 0; i < 2000000; i++ {
		b := c.Rng.Uint64()
		f := math.Float64frombits(b)
		s := strconv.FormatFloat(f, 'G', 17, 64)
		v, err := strconv.ParseFloat(s, 64)
		if err != nil || (math.Float64bits(v) != b && f == f) || (f != f && v == v) {
			c.Violate("property", "float64-render-parse", fmt.Sprintf("float64 bits %#x renders %q and parses back to %v (%v)", b, s, v, err), map[string]any{"bits": b})
		}
	}
	c.StatN("float64-sweep", 2000000)
	_ = bad
}

// ---------- free-form SML text (shared with C14) ----------

func c13SmlWS(r *rand.Rand) string {
	switch r.IntN(10) {
	case 0:
		return "\n"
	case 1:
		return "\r\n"
	case 2:
		return "\t"
	case 3:
		return "  "
	case 4:
		return " \n  "
	}
	return " "
}

func c13SmlComment(r *rand.Rand) string {
	switch r.IntN(12) {
	case 0:
		return "/* note */"
	case 1:
		return "// note\n"
	case 2:
		return "/**/"
	}
	return ""
}

func c13RandCase(r *rand.Rand, s string) string {
	switch r.IntN(4) {
	case 0:
		return strings.ToLower(s)
	case 1:
		b := []byte(s)
		for i := range b {
			if r.IntN(2) == 0 {
				b[i] = byte(unicode.ToLower(rune(b[i])))
			}
		}
		return string(b)
	}
	return s
}

func c13SmlSizeForm(r *rand.Rand, n int) string {
	switch r.IntN(9) {
	case 0:
		return ""
	case 1:
		return fmt.Sprintf("[0..%d]", n)
	case 2:
		return fmt.Sprintf("[..%d]", n)
	case 3:
		return fmt.Sprintf("[%d..]", n)
	case 4:
		return fmt.Sprintf("[ %d ]", n)
	case 5:
		return fmt.Sprintf("[%d..%d]", n, n+r.IntN(3))
	}
	return fmt.Sprintf("[%d]", n)
}

func c13IntLit(r *rand.Rand, v int64) string {
	switch r.IntN(8) {
	case 0:
		if v >= 0 {
			return "0x" + strconv.FormatInt(v, 16)
		}
		return "-0x" + strconv.FormatUint(uint64(-v), 16)
	case 1:
		if v >= 0 {
			return "0b" + strconv.FormatInt(v, 2)
		}
	case 2:
		if v >= 0 {
			return "+" + strconv.FormatInt(v, 10)
		}
	case 3:
		if v >= 0 {
			return "0o" + strconv.FormatInt(v, 8)
		}
	case 4:
		if v >= 1000 {
			s := strconv.FormatInt(v, 10)
			return s[:len(s)-3] + "_" + s[len(s)-3:]
		}
	}
	return strconv.FormatInt(v, 10)
}

func c13UintLit(r *rand.Rand, v uint64) string {
	switch r.IntN(6) {
	case 0:
		return "0x" + strconv.FormatUint(v, 16)
	case 1:
		return "0X" + strings.ToUpper(strconv.FormatUint(v, 16))
	case 2:
		return "0b" + strconv.FormatUint(v, 2)
	case 3:
		if v > 7 {
			return "0" + strconv.FormatUint(v, 8)
		}
	}
	return strconv.FormatUint(v, 10)
}

func c13FloatLit(r *rand.Rand, w int, bits uint64) string {
	var f float64
	bs := 64
	if w == 4 {
		f = float64(math.Float32frombits(uint32(bits)))
		bs = 32
	} else {
		f = math.Float64frombits(bits)
	}
	switch r.IntN(5) {
	case 0:
		return strconv.FormatFloat(f, 'g', -1, bs)
	case 1:
		return strconv.FormatFloat(f, 'e', -1, bs)
	case 2:
		if math.Abs(f) < 1e15 && math.Abs(f) > 1e-5 {
			return strconv.FormatFloat(f, 'f', -1, bs)
		}
	case 3:
		if f != f {
			return "nan"
		}
		if math.IsInf(f, 1) {
			return "inf"
		}
	}
	prec := 17
	if w == 4 {
		prec = 9
	}
	return strconv.FormatFloat(f, 'G', prec, bs)
}

// c13StrictASCIIForm renders bytes in the strict grammar: quoted runs with escapes and numeric tokens.
func c13StrictASCIIForm(r *rand.Rand, b []byte) string {
	q := byte('"')
	if r.IntN(3) == 0 {
		q = '\''
	}
	if len(b) == 0 {
		if r.IntN(2) == 0 {
			return ""
		}
		return string([]byte{q, q})
	}
	var sb strings.Builder
	inRun := false
	for i, c := range b {
		printable := c >= 0x20 && c < 0x7f
		if printable && r.IntN(12) != 0 {
			if !inRun {
				if i > 0 {
					sb.WriteByte(' ')
				}
				sb.WriteByte(q)
				inRun = true
			}
			if c == q || c == '\\' || c == '>' {
				sb.WriteByte('\\')
			}
			sb.WriteByte(c)
			continue
		}
		if inRun {
			sb.WriteByte(q)
			inRun = false
		}
		if i > 0 {
			sb.WriteByte(' ')
		}
		switch r.IntN(4) {
		case 0:
			sb.WriteString(strconv.Itoa(int(c)))
		case 1:
			fmt.Fprintf(&sb, "0x%x", c)
		default:
			fmt.Fprintf(&sb, "0x%02X", c)
		}
	}
	if inRun {
		sb.WriteByte(q)
	}
	return sb.String()
}

func c13SmlItemFreeForm(r *rand.Rand, sb *strings.Builder, it *LItem, strict bool) {
	sb.WriteByte('<')
	if r.IntN(10) == 0 {
		sb.WriteByte(' ')
	}
	switch it.Kind {
	case "E":
		sb.WriteString("L>")
		return
	case "L":
		sb.WriteString(c13RandCase(r, "L") + c13SmlSizeForm(r, len(it.Kids)))
		sb.WriteString(c13SmlComment(r))
		for _, k := range it.Kids {
			sb.WriteString(c13SmlWS(r))
			c13SmlItemFreeForm(r, sb, k, strict)
			sb.WriteString(c13SmlComment(r))
		}
		sb.WriteString(c13SmlWS(r))
	case "A":
		sb.WriteString(c13RandCase(r, "A") + c13SmlSizeForm(r, len(it.Bytes)) + c13SmlWS(r))
		if strict {
			sb.WriteString(c13StrictASCIIForm(r, it.Bytes))
		} else {
			q := `"`
			if r.IntN(3) == 0 {
				q = "'"
			}
			sb.WriteString(q + string(it.Bytes) + q)
		}
	case "J", "W":
		sb.WriteString(c13RandCase(r, it.Kind))
		if it.Kind == "J" || r.IntN(2) == 0 {
			sb.WriteString(c13SmlSizeForm(r, len(it.Bytes)))
		}
		sb.WriteString(c13SmlWS(r))
		q := `"`
		if r.IntN(3) == 0 {
			q = "'"
		}
		if len(it.Bytes) > 0 || r.IntN(2) == 0 {
			sb.WriteString(q + string(it.Bytes) + q)
		}
	case "B":
		sb.WriteString(c13RandCase(r, "B") + c13SmlSizeForm(r, len(it.Bytes)))
		if sb.Len() > 0 && sb.String()[sb.Len()-1] != ']' {
			sb.WriteByte(' ')
		}
		for _, b := range it.Bytes {
			sb.WriteString(c13SmlWS(r))
			sb.WriteString(c13UintLit(r, uint64(b)))
		}
	case "O":
		sb.WriteString(c13RandCase(r, "BOOLEAN") + c13SmlSizeForm(r, len(it.Bytes)))
		for _, b := range it.Bytes {
			sb.WriteString(c13SmlWS(r))
			words := []string{"False", "F", "false", "f", "FALSE"}
			if b != 0 {
				words = []string{"True", "T", "true", "t", "TRUE"}
			}
			sb.WriteString(words[r.IntN(len(words))])
		}
	case "I":
		sb.WriteString(c13RandCase(r, "I") + strconv.Itoa(it.W) + c13SmlSizeForm(r, len(it.Ints)))
		for _, v := range it.Ints {
			sb.WriteString(c13SmlWS(r))
			sb.WriteString(c13IntLit(r, v))
		}
	case "U":
		sb.WriteString(c13RandCase(r, "U") + strconv.Itoa(it.W) + c13SmlSizeForm(r, len(it.Uints)))
		for _, v := range it.Uints {
			sb.WriteString(c13SmlWS(r))
			sb.WriteString(c13UintLit(r, v))
		}
	case "F":
		sb.WriteString(c13RandCase(r, "F") + strconv.Itoa(it.W) + c13SmlSizeForm(r, len(it.Bits)))
		for _, v := range it.Bits {
			sb.WriteString(c13SmlWS(r))
			sb.WriteString(c13FloatLit(r, it.W, v))
		}
	}
	if r.IntN(6) == 0 {
		sb.WriteString(c13SmlWS(r))
	}
	sb.WriteByte('>')
}

// c13SmlFreeForm renders one message the way a person might write it: optional name, quoted or bare
// SxFy, optional W, size forms, comments, literal styles.
func c13SmlFreeForm(r *rand.Rand, body *LItem, strict bool) string {
	var sb strings.Builder
	sb.WriteString(c13SmlComment(r))
	if r.IntN(6) == 0 {
		sb.WriteString([]string{"Name:", "msg_1 : ", ":"}[r.IntN(3)])
	}
	s := r.IntN(128)
	f := r.IntN(256)
	w := r.IntN(2) == 0
	if w && f%2 == 0 {
		f++
	}
	q := []string{"", "'", `"`}[r.IntN(3)]
	fmt.Fprintf(&sb, "%sS%dF%d%s", q, s, f, q)
	if w {
		sb.WriteString([]string{" W", "W", "  W"}[r.IntN(3)])
	}
	sb.WriteString([]string{"\n", " ", "\r\n", "\n\n"}[r.IntN(4)])
	if body != nil {
		c13SmlItemFreeForm(r, &sb, body, strict)
		sb.WriteString(c13SmlWS(r))
	}
	sb.WriteByte('.')
	return sb.String()
}

// c13ParseProtoItem reads the harness protocol text (Describe's output) back into an LItem.
func c13ParseProtoItem(text string) (*LItem, error) {
	toks := strings.Fields(text)
	it, rest, err := c13ParseProtoToks(toks)
	if err != nil {
		return nil, err
	}
	if len(rest) != 0 {
		return nil, fmt.Errorf("trailing tokens")
	}
	return it, nil
}

func c13UnhexB(h string) ([]byte, error) {
	if h == "-" {
		return nil, nil
	}
	return hex.DecodeString(h)
}

func c13ParseProtoToks(t []string) (*LItem, []string, error) {
	if len(t) == 0 {
		return nil, nil, fmt.Errorf("eof")
	}
	k := t[0]
	switch {
	case k == "E":
		return &LItem{Kind: "E"}, t[1:], nil
	case k == "L":
		n, err := strconv.Atoi(t[1])
		if err != nil {
			return nil, nil, err
		}
		it := &LItem{Kind: "L"}
		rest := t[2:]
		for i := 0; i < n; i++ {
			var kid *LItem
			kid, rest, err = c13ParseProtoToks(rest)
			if err != nil {
				return nil, nil, err
			}
			it.Kids = append(it.Kids, kid)
		}
		return it, rest, nil
	case k == "B" || k == "O" || k == "A" || k == "J":
		b, err := c13UnhexB(t[1])
		return &LItem{Kind: k, Bytes: b}, t[2:], err
	case k == "W":
		l, err := strconv.ParseUint(t[1], 10, 16)
		if err != nil {
			return nil, nil, err
		}
		b, err := c13UnhexB(t[2])
		return &LItem{Kind: "W", LSH: uint16(l), Bytes: b}, t[3:], err
	case k[0] == 'I' || k[0] == 'U' || k[0] == 'F':
		w := int(k[1] - '0')
		n, err := strconv.Atoi(t[1])
		if err != nil || len(t) < 2+n {
			return nil, nil, fmt.Errorf("bad count")
		}
		it := &LItem{Kind: k[:1], W: w}
		for _, s := range t[2 : 2+n] {
			switch k[0] {
			case 'I':
				v, e := strconv.ParseInt(s, 10, 64)
				if e != nil {
					return nil, nil, e
				}
				it.Ints = append(it.Ints, v)
			case 'U':
				v, e := strconv.ParseUint(s, 10, 64)
				if e != nil {
					return nil, nil, e
				}
				it.Uints = append(it.Uints, v)
			default:
				if s == "nan" {
					if w == 4 {
						it.Bits = append(it.Bits, 0x7fc00000)
					} else {
						it.Bits = append(it.Bits, 0x7ff8000000000000)
					}
					continue
				}
				v, e := strconv.ParseUint(s, 10, 64)
				if e != nil {
					return nil, nil, e
				}
				it.Bits = append(it.Bits, v)
			}
		}
		return it, t[2+n:], nil
	}
	return nil, nil, fmt.Errorf("bad kind %q", k)
}
