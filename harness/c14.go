package main

import (
	"bytes"
	"context"
	"errors"
	"fmt"
	"io"
	"math"
	"math/rand/v2"
	"os"
	"os/exec"
	"regexp"
	"runtime"
	"runtime/debug"
	"sort"
	"strconv"
	"strings"
	"sync"
	"syscall"
	"time"

	"github.com/arloliu/go-secs/v2/hsms"
	"github.com/arloliu/go-secs/v2/secs2"
	"github.com/arloliu/go-secs/v2/sml"
)

func init() {
	if mode := os.Getenv("VERIF_SML_CHILD"); mode != "" {
		c14Child(mode) // never returns
	}
	register("C14", "texts: hand-written boundary inputs, encoder outputs and free-form valid SML in both ASCII forms, each mutated (truncation at every "+
		"position class, byte deletion/insertion/replacement from the grammar alphabet, unbalanced brackets, unterminated strings and comments, size-hint "+
		"edits, CR/LF mixes, multi-byte runes, Unicode spaces, invalid UTF-8), random bytes, nesting to 5000 in-process; each x {strict, non-strict} x "+
		"{Parse, ParseMessage, ParseHeader}; size hints up to 2^31-1 and nesting to 10^6 in a resource-limited child process; 16 concurrent parser/encoder "+
		"pairs; time: 37 adversarial periodic families (body-less / comment-prefixed / named messages, long and many strict numeric tokens, quote and "+
		"white-space patterns of the non-strict close-quote scan, wide lists, nesting at and beyond the limit, comments after every item, long and "+
		"unterminated comments / strings / value items, long tokens, long headers, errors at the end of many lines) plus the 3 periodic texts the model "+
		"itself rates most expensive among 160 (quick) random ones, each at sizes n, 2n, 4n, 8n (families linear in the model up to 128n), model step "+
		"count against the proved bound and against the implementation's time and allocated bytes; distinct = distinct (mode, entry, text); "+
		"non-trivial = text contains at least one '<'", runC14)
}

// ---------- child process: resource probes that may kill the process ----------

// c14Child parses stdin under resource limits and reports; a crash (stack overflow, out of memory)
// terminates this process only. mode: "<strict 0|1>:<maxStackMiB>:<addressSpaceMiB>".
func c14Child(mode string) {
	parts := strings.Split(mode, ":")
	if parts[0] == "concur" {
		n, _ := strconv.Atoi(parts[1])
		c14ChildConcur(n)
		return
	}
	strict := parts[0] == "1"
	if n, _ := strconv.Atoi(parts[1]); n > 0 {
		debug.SetMaxStack(n << 20)
	}
	if n, _ := strconv.Atoi(parts[2]); n > 0 {
		lim := syscall.Rlimit{Cur: uint64(n) << 20, Max: uint64(n) << 20}
		_ = syscall.Setrlimit(syscall.RLIMIT_AS, &lim)
	}
	in, _ := io.ReadAll(os.Stdin)
	var m0, m1 runtime.MemStats
	runtime.ReadMemStats(&m0)
	t0 := time.Now()
	p := sml.NewParser(sml.WithParserStrictMode(strict))
	msgs, err := p.Parse(string(in))
	el := time.Since(t0)
	runtime.ReadMemStats(&m1)
	fmt.Printf("RESULT msgs=%d err=%v alloc=%d ms=%d\n", len(msgs), err != nil, m1.TotalAlloc-m0.TotalAlloc, el.Milliseconds())
	os.Exit(0)
}

// c14ChildConcur: the package-level helpers sml.Parse / sml.ParseStrict are entry points too; concurrent callers of
// the SAME helper on DIFFERENT texts must get what sequential callers get (no parser cursor shared behind the
// helper). Run in a child process: shared mutable parser state torn by a race can corrupt memory and kill the process
// (after seeded change C14c-2).
func c14ChildConcur(rounds int) {
	var mu sync.Mutex
	diffs, panics := 0, 0
	first := ""
	var wg sync.WaitGroup
	for g := 0; g < 8; g++ {
		wg.Add(1)
		go func(g int) {
			defer wg.Done()
			letter := string(rune('a' + g))
			for n := 0; n < rounds; n++ {
				ln := 1 + (n*7+g)%200
				val := strings.Repeat(letter, ln)
				if n%2 == 0 { // short, never-seen-before values
					val = fmt.Sprintf("%s%d", letter, n)
					ln = len(val)
				}
				text := "S1F1 W\n<A \"" + val + "\">\n."
				if n%3 == 0 {
					text = fmt.Sprintf("S1F1 W\n<A[%d] \"%s\">\n.", ln, val)
				}
				if n%5 == 0 { // an erroneous text too: the reported offset must stay inside ITS input
					text = text[:len(text)-3]
				}
				for _, strict := range []bool{true, false} {
					func() {
						defer func() {
							if p := recover(); p != nil {
								mu.Lock()
								panics++
								if first == "" {
									first = fmt.Sprintf("panic %v on %q", p, text)
								}
								mu.Unlock()
							}
						}()
						var msgs []*hsms.DataMessage
						var err error
						if strict {
							msgs, err = sml.ParseStrict(text)
						} else {
							msgs, err = sml.Parse(text)
						}
						// distinct parser INSTANCES used concurrently share nothing either (a process-wide table behind the
						// parser — an intern map, a pool — written without the right lock kills the process: seeded C14e-2)
						want, _ := sml.NewParser(sml.WithParserStrictMode(strict)).Parse(text)
						got, exp := "", ""
						if err == nil && len(msgs) == 1 {
							if it, e := msgs[0].Item(); e == nil {
								got, _ = it.ToASCII()
							}
						}
						if len(want) == 1 {
							if it, e := want[0].Item(); e == nil {
								exp, _ = it.ToASCII()
							}
						}
						bad := got != exp || len(msgs) != len(want)
						var pe *sml.ParseError
						if errors.As(err, &pe) && (pe.Offset < 0 || pe.Offset > len(text)) {
							bad = true
						}
						if bad {
							mu.Lock()
							diffs++
							if first == "" {
								first = fmt.Sprintf("%q -> %q (err %v), an own parser gives %q", text, got, err, exp)
							}
							mu.Unlock()
						}
					}()
				}
			}
		}(g)
	}
	wg.Wait()
	fmt.Printf("CONCUR diffs=%d panics=%d first=%s\n", diffs, panics, strings.ReplaceAll(first, "\n", "\\n"))
	os.Exit(0)
}

// c14ConcurrentHelpers runs c14ChildConcur in a child process and judges it.
// c14ConcurSafe: the child-process concurrency probe found nothing; only then are the in-process concurrency phases
// run (a fatal "concurrent map writes" there would kill the harness before it can report anything).
var c14ConcurSafe = true

func c14ConcurrentHelpers(c *Ctx) {
	exe, err := os.Executable()
	if err != nil {
		c.Note("cannot find own executable: %v", err)
		return
	}
	rounds := c.Pick(1500, 15000)
	ctx, cancel := context.WithTimeout(context.Background(), 120*time.Second)
	defer cancel()
	cmd := exec.CommandContext(ctx, exe)
	cmd.Env = append(os.Environ(), fmt.Sprintf("VERIF_SML_CHILD=concur:%d", rounds), "GOTRACEBACK=single")
	var out, errb bytes.Buffer
	cmd.Stdout, cmd.Stderr = &out, &errb
	runErr := cmd.Run()
	c.Count("concurrency-package-helpers", true)
	c.StatN("concurrent-helper-parses", 8*rounds*2)
	replay := map[string]any{"scenario": "8 goroutines call sml.Parse / sml.ParseStrict on distinct texts", "rounds": rounds}
	var diffs, panics int
	firstS := ""
	if i := strings.Index(out.String(), "CONCUR "); i >= 0 && runErr == nil {
		line := out.String()[i:]
		fmt.Sscanf(line, "CONCUR diffs=%d panics=%d", &diffs, &panics)
		if j := strings.Index(line, "first="); j >= 0 {
			firstS = strings.TrimSpace(line[j+6:])
		}
		if diffs+panics > 0 {
			replay["first"] = clip(firstS, 1500)
			c14ConcurSafe = false
			c.Violate("property", "concurrent-result-differs", fmt.Sprintf("package-level helpers used concurrently: %d results differed from an own parser's, %d calls panicked; first: %s", diffs, panics, clip(firstS, 300)), replay)
		}
		return
	}
	c14ConcurSafe = false
	if ctx.Err() != nil {
		c.Violate("property", "concurrent-use-hung", "concurrent use of the package-level helpers did not finish within 120 s", replay)
		return
	}
	se := strings.TrimSpace(errb.String())
	head, _, _ := strings.Cut(se, "\n")
	replay["stderr"] = clip(se, 3000)
	c.Violate("property", "concurrent-use-crashed-the-process", fmt.Sprintf("concurrent use of parsers (package-level helpers and distinct instances) killed the process (%v): %s", runErr, clip(head, 200)), replay)
}

type c14ChildResult struct {
	crashed  bool
	timedOut bool
	retried  bool // the first attempt timed out and the probe was run again alone
	reason   string
	alloc    uint64
	ms       int64
	isErr    bool
}

var c14ReResult = regexp.MustCompile(`RESULT msgs=(\d+) err=(true|false) alloc=(\d+) ms=(\d+)`)

// c14RunChild runs the probe in a child process. A probe that does not finish in time is run once more (retries are
// serialised among themselves) with three times the limit, before "timed out" is believed: on a loaded machine a 35 ms
// child was once seen to exceed 60 s (thorough sweep, seed 44, load average above 40 — false alarm, DESIGN 9.4); a
// parser that really hangs still times out the second time.
func c14RunChild(input string, strict bool, maxStackMiB, asMiB int, timeout time.Duration) c14ChildResult {
	res := c14RunChildOnce(input, strict, maxStackMiB, asMiB, timeout)
	if res.timedOut {
		c14ChildAlone.Lock()
		defer c14ChildAlone.Unlock()
		res = c14RunChildOnce(input, strict, maxStackMiB, asMiB, 3*timeout)
		res.retried = true
	}
	return res
}

var c14ChildAlone sync.Mutex

func c14RunChildOnce(input string, strict bool, maxStackMiB, asMiB int, timeout time.Duration) c14ChildResult {
	exe, err := os.Executable()
	if err != nil {
		return c14ChildResult{crashed: true, reason: "cannot find own executable: " + err.Error()}
	}
	ctx, cancel := context.WithTimeout(context.Background(), timeout)
	defer cancel()
	cmd := exec.CommandContext(ctx, exe)
	cmd.Env = append(os.Environ(), fmt.Sprintf("VERIF_SML_CHILD=%s:%d:%d", c13B01(strict), maxStackMiB, asMiB), "GOTRACEBACK=none", "GOMAXPROCS=2")
	cmd.Stdin = strings.NewReader(input)
	var out, errb bytes.Buffer
	cmd.Stdout = &out
	cmd.Stderr = &errb
	runErr := cmd.Run()
	if ctx.Err() != nil {
		return c14ChildResult{timedOut: true, reason: "timeout after " + timeout.String()}
	}
	if m := c14ReResult.FindStringSubmatch(out.String()); m != nil && runErr == nil {
		a, _ := strconv.ParseUint(m[3], 10, 64)
		ms, _ := strconv.ParseInt(m[4], 10, 64)
		return c14ChildResult{alloc: a, ms: ms, isErr: m[2] == "true"}
	}
	se := errb.String()
	reason := "exit: " + fmt.Sprint(runErr)
	for _, k := range []string{"stack overflow", "out of memory", "cannot allocate memory", "index out of range"} {
		if strings.Contains(se, k) {
			reason = k
			break
		}
	}
	first, _, _ := strings.Cut(strings.TrimSpace(se), "\n")
	return c14ChildResult{crashed: true, reason: reason + " (" + clip(first, 160) + ")"}
}

// c14Guarded is c13SmlOutcome under a watchdog: "hang" when the call has not returned after 20 s.
func c14Guarded(entry string, strict bool, text string) (string, string) {
	type res struct{ out, pmsg string }
	ch := make(chan res, 1)
	go func() {
		o, p := c13SmlOutcome(entry, strict, text)
		ch <- res{o, p}
	}()
	select {
	case r := <-ch:
		return r.out, r.pmsg
	case <-time.After(20 * time.Second):
		return "hang", ""
	}
}

// ---------- inputs ----------

type c14Input struct {
	text string
	tag  string
}

var c14Hand = []string{
	"", " ", "\n", ".", "..", ":", "S", "S1", "S1F", "S1F1", "S1F1.", "S1F1\n.", "S1F1 W.", "S1F1W.", "S1F2 W.", "S127F255 W.", "S128F1.", "S1F256.",
	"S256F1.", "S01F001.", "S1F1 .", "S 1F1.", "S1 F1.", "'S1F1' W\n.", "\"S1F1\"W.", "'S1F1\" W.", "name:S1F1.", "a:b:S1F1.", ":S1F1.", "S1F1:.", "x.y:S1F1\n.",
	"S1F1\n<", "S1F1\n<L", "S1F1\n<L>", "S1F1\n<L>.", "S1F1\n<L[", "S1F1\n<L[1", "S1F1\n<L[1]", "S1F1\n<L[1]>.", "S1F1\n<L[..", "S1F1\n<L[.", "S1F1\n<L[.]>.",
	"S1F1\n<L[..3]>.", "S1F1\n<L[1..]>.", "S1F1\n<L[3..1]>.", "S1F1\n<L[1..3]>.", "S1F1\n<L[ 1 .. 3 ]>.", "S1F1\n<L[1 ..3]>.", "S1F1\n<L[1. .3]>.", "S1F1\n<L[1.3]>.",
	"S1F1\n<L[-1]>.", "S1F1\n<L[+1]>.", "S1F1\n<L[0x1]>.", "S1F1\n<L[2147483648]>.", "S1F1\n<L[4294967295]>.", "S1F1\n<L[4294967296]>.", "S1F1\n<L[99999999999999999999]>.",
	"S1F1\n<L[1]x>.", "S1F1\n<L <L <L>>>.", "S1F1\n<L <L <L>>> ", "S1F1\n<L <L <L>>.", "S1F1\n<L>>.", "S1F1\n<L> <L>.", "S1F1 <B>.", "S1F1 <B >.", "S1F1 <B[0]>.", "S1F1 <B\n1>.",
	"S1F1 <BO 1>.", "S1F1 <BOOLEAN T>.", "S1F1 <BOOLEANT>.", "S1F1 <boolean t f>.", "S1F1 <Boolean TRUE FALSE>.", "S1F1 <BOOLEA T>.", "S1F1 <BOOLEAN tru>.", "S1F1 <BOOLEAN fal\xc5\xbfe>.",
	"S1F1 <B 256>.", "S1F1 <B -1>.", "S1F1 <B 0xff 0b11 0o7 07 255>.", "S1F1 <B 1_0>.", "S1F1 <B 08>.", "S1F1 <I1 -128 127>.", "S1F1 <I1 128>.", "S1F1 <I1 -129>.", "S1F1 <I1 -0x80>.",
	"S1F1 <I8 -9223372036854775808 9223372036854775807>.", "S1F1 <I8 9223372036854775808>.", "S1F1 <U8 18446744073709551615>.", "S1F1 <U8 18446744073709551616>.", "S1F1 <U1 -1>.",
	"S1F1 <U1 +1>.", "S1F1 <I1 +1>.", "S1F1 <I3 1>.", "S1F1 <U 1>.", "S1F1 <I 1>.", "S1F1 <F 1>.", "S1F1 <F4 1.5 inf -Inf nan 1e40>.", "S1F1 <F4 1e39>.", "S1F1 <F8 1e309>.", "S1F1 <F8 0x1p-2 1_0.5>.",
	"S1F1 <F4>.", "S1F1 <F8 1,5>.", "S1F1 <I15 6>.", "S1F1 <U8123>.", "S1F1 <F41.5>.", "S1F1 <U1 1 2>.", "S1F1 <U1 1 2　3>.", "S1F1 <U1 1\x0b2\x0c3>.", "S1F1 <U1 1\xc2>.",
	"S1F1 <A>.", "S1F1 <A \"\">.", "S1F1 <A ''>.", "S1F1 <A[3] \"abc\">.", "S1F1 <A[2] \"abc\">.", "S1F1 <A[4] \"abc\">.", "S1F1 <A[3] \"abc\" >.", "S1F1 <A[3] \"a\">\">.", "S1F1 <A \"a\">b\">.",
	"S1F1\n<A \"abc\"   ", "S1F1\n<A[3] \"abc\"   ", "S1F1\n<A \"abc", "S1F1\n<A \"abc\"", "S1F1\n<A \"abc\">", "S1F1\n<A abc>.", "S1F1\n<A 0x41>.", "S1F1\n<A 0x41 0x42>.", "S1F1\n<A 65 \"b\" 0x43>.",
	"S1F1\n<A \"a\\\"b\">.", "S1F1\n<A \"a\\\\\">.", "S1F1\n<A \"a\\>b\">.", "S1F1\n<A \"a\\nb\">.", "S1F1\n<A 'it''s'>.", "S1F1\n<A 'a\"b'>.", "S1F1\n<A \"a'b\">.", "S1F1\n<A 256>.", "S1F1\n<A 0x100>.",
	"S1F1\n<A 0x>.", "S1F1\n<A \"\xe9\">.", "S1F1\n<A \"\xe6\xbc\xa2\">.", "S1F1\n<A \xe6\xbc\xa2>.", "S1F1\n<A \"a\" \"b\">.", "S1F1\n<A \"a\"\"b\">.", "S1F1\n<A\"a\">.", "S1F1\n<A0x41>.",
	"S1F1\n<J>.", "S1F1\n<J \"\">.", "S1F1\n<J \">.", "S1F1\n<J \"x>.", "S1F1\n<J \"a>b\">.", "S1F1\n<J 'a\"b'>.", "S1F1\n<J \"a\" >.", "S1F1\n<J \"a\"\n>.", "S1F1\n<J \"\xb1\xb2\">.", "S1F1\n<J abc>.",
	"S1F1\n<W>.", "S1F1\n<W \"\">.", "S1F1\n<W \"\xe6\xbc\xa2\">.", "S1F1\n<W[3] \"abc\">.", "S1F1\n<W \"a\\u00a0b\">.", "S1F1\n<W 'x'>.", "S1F1\n<W \"x",
	"S1F1\n<X>.", "S1F1\n<>.", "S1F1\n< L >.", "S1F1\n<l[0]>.", "S1F1\n<L[0]> .", "S1F1\n<L[0]>\n.\nS2F3 W\n<A \"x\">\n.", "S1F1.S2F2.S3F3.", "S1F1\n.\n\nS2F1\n.", "S1F1\n. S2",
	"/* c */S1F1.", "// c\nS1F1.", "// c", "/* c", "/*/S1F1.", "S1F1 /* c */ .", "S1F1\n/* c */<L>.", "S1F1\n<L /* c */ >.", "S1F1\n<L // c\n>.", "S1F1\n<L[1] /* c */ <A \"x\"> /* d */ >.",
	"S1F1\n<L[1] // c\n <A \"x\"> // d\n >.", "S1F1\n<L> /* c */ .", "S1F1\n<L> // c\n.", "S1F1\n<L> // c.", "S1F1\n<U1 1 /* c */ 2>.", "S1F1\n<L /* a */ /* b */ >.", "S1F1 W\n<L>\n.", "S1F1\nW <L>.",
	"S1F1\r\n<L[1]\r\n  <A[1] \"x\">\r\n>\r\n.", "S1F1\r<L>\r.", "S1F1\n<L\t>\t.", "S1F1\x00.", "S1F1\n<L>\x00.", "\xef\xbb\xbfS1F1.", "S1F1\n<L>.\xff",
}

func c14Inputs(c *Ctx) []c14Input {
	r := c.Rng
	var in []c14Input
	for _, h := range c14Hand {
		in = append(in, c14Input{h, "hand"})
	}
	// valid texts: encoder outputs and free-form, both ASCII forms
	var valid []string
	opts := c13AllStrictOpts()
	for i := 0; i < c.Pick(150, 1200); i++ {
		budget := 1 + r.IntN(14)
		body := c13Tree(r, r.IntN(4), &budget, i%3 == 0)
		item := Build(body, 0)
		s, f := uint8(r.IntN(128)), uint8(r.IntN(128))*2+1
		msg, err := hsms.NewDataMessage(s, f, r.IntN(2) == 0, 0, [4]byte{}, item)
		if err != nil {
			continue
		}
		o := opts[r.IntN(len(opts))]
		o.strict = r.IntN(2) == 0
		if t, err := sml.NewEncoder(o.real()...).EncodeMessage(msg); err == nil {
			valid = append(valid, t)
			in = append(in, c14Input{t, "encoder-output"})
		}
		valid = append(valid, c13SmlFreeForm(r, body, true), c13SmlFreeForm(r, body, false))
		in = append(in, c14Input{valid[len(valid)-2], "free-form-strict"}, c14Input{valid[len(valid)-1], "free-form-fast"})
		if i%7 == 0 {
			in = append(in, c14Input{valid[len(valid)-2] + c13SmlWS(r) + valid[len(valid)-1], "multi-message"})
		}
	}
	// mutations
	alphabet := []string{"<", ">", "\"", "'", "\\", "[", "]", ".", "..", " ", "\n", "\r\n", "\t", "/*", "*/", "//", ":", "W", "S", "F", "L", "A", "0", "9", "0x", "-", "+",
		"\x00", "\x7f", "\x80", "\xff", "\xc2", "\xc2\xa0", "\xe2\x80\x83", "\xe3\x80\x80", "\xc2\x85", "é", "漢", "😀", "\xe6\xbc", "\x0b", "\x0c", "BOOLEAN", "_", "e", "T"}
	perValid := c.Pick(12, 30)
	for _, v := range valid {
		for k := 0; k < perValid; k++ {
			in = append(in, c14Input{c14Mutate(r, v, alphabet), "mutation"})
		}
	}
	// truncation at every position of a few texts (every position class is hit)
	for i := 0; i < len(valid) && i < c.Pick(6, 40); i++ {
		v := valid[r.IntN(len(valid))]
		if len(v) > 400 {
			continue
		}
		for p := 0; p <= len(v); p++ {
			in = append(in, c14Input{v[:p], "truncation"})
		}
	}
	// size-hint edits on every item type (in-process only up to 10^6; larger go to the child)
	for _, ty := range []string{"L", "A", "J", "W", "B", "BOOLEAN", "I1", "I8", "U2", "U4", "F4", "F8"} {
		for _, n := range []string{"0", "1", "7", "65536", "1000000", "0..1000000", "..1000000", "1000000..", "2147483647", "2147483648"} {
			body := ""
			switch ty {
			case "A", "J", "W":
				body = ` "ab"`
			case "BOOLEAN":
				body = " T F"
			case "L":
				body = " <A \"x\"> <L>"
			case "F4", "F8":
				body = " 1.5 2"
			default:
				body = " 1 2"
			}
			in = append(in, c14Input{fmt.Sprintf("S1F1 W\n<%s[%s]%s>\n.", ty, n, body), "size-hint"})
		}
	}
	// nesting
	for _, d := range []int{1, 2, 63, 64, 65, 66, 200, 1000, 5000} {
		in = append(in, c14Input{"S9F9\n" + strings.Repeat("<L", d) + strings.Repeat(">", d) + ".", "nesting"})
		in = append(in, c14Input{"S9F9\n" + strings.Repeat("<L[1] ", d) + "<U1 7>" + strings.Repeat(">", d) + "\n.", "nesting"})
		in = append(in, c14Input{"S9F9\n" + strings.Repeat("<L", d) + strings.Repeat(">", d-1) + ".", "nesting-unbalanced"})
	}
	// the nesting limit is per path and per message, whatever was parsed before: lists closed earlier in the same
	// message, or whole earlier messages of the same text, neither widen nor narrow it (after seeded changes C14e-1
	// — a depth counter lowered twice per closed list — and C13e-2 — raised once per empty list)
	nestOf := func(d int) string { return strings.Repeat("<L ", d) + "<U1 7>" + strings.Repeat(">", d) }
	for _, k := range []int{1, 5, 70, 200} {
		closed := strings.Repeat("<L> ", k)
		for _, d := range []int{62, 63, 64, 65, 130} {
			tag := "nesting-after-lists-within"
			if d+1 > 64 {
				tag = "nesting-after-lists-over"
			}
			in = append(in, c14Input{"S9F9\n<L " + closed + nestOf(d) + ">.", tag}) // the deep branch sits at depth d+1
			tag2 := "nesting-after-lists-within"
			if d > 64 {
				tag2 = "nesting-after-lists-over"
			}
			in = append(in, c14Input{"S1F1\n<L " + closed + ">.\nS9F9\n" + nestOf(d) + ".", tag2})
		}
	}
	// random bytes and random grammar soup
	for i := 0; i < c.Pick(400, 8000); i++ {
		n := r.IntN(60)
		var sb strings.Builder
		if i%2 == 0 {
			sb.WriteString("S1F1\n")
		}
		for k := 0; k < n; k++ {
			if i%4 < 2 {
				sb.WriteString(alphabet[r.IntN(len(alphabet))])
			} else {
				sb.WriteByte(byte(r.IntN(256)))
			}
		}
		in = append(in, c14Input{sb.String(), "random-soup"})
	}
	return in
}

func c14Mutate(r *rand.Rand, v string, alphabet []string) string {
	b := []byte(v)
	for n := 1 + r.IntN(2); n > 0; n-- {
		if len(b) == 0 {
			break
		}
		p := r.IntN(len(b))
		switch r.IntN(11) {
		case 0: // delete a byte
			b = append(b[:p:p], b[p+1:]...)
		case 1: // insert from the alphabet
			b = append(b[:p:p], append([]byte(alphabet[r.IntN(len(alphabet))]), b[p:]...)...)
		case 2: // replace a byte
			a := alphabet[r.IntN(len(alphabet))]
			b = append(b[:p:p], append([]byte(a), b[p+1:]...)...)
		case 3: // drop the last '>' or quote
			ch := []byte{'>', '"', '\'', '.', ']'}[r.IntN(5)]
			if i := bytes.LastIndexByte(b, ch); i >= 0 {
				b = append(b[:i:i], b[i+1:]...)
			}
		case 4: // drop the first such
			ch := []byte{'>', '"', '<', '[', '\n'}[r.IntN(5)]
			if i := bytes.IndexByte(b, ch); i >= 0 {
				b = append(b[:i:i], b[i+1:]...)
			}
		case 5: // duplicate a range
			q := p + r.IntN(len(b)-p+1)
			b = append(b[:q:q], append(append([]byte(nil), b[p:q]...), b[q:]...)...)
		case 6: // delete a range
			q := p + r.IntN(min(len(b)-p, 12)+1)
			b = append(b[:p:p], b[q:]...)
		case 7: // CR/LF mixes
			b = bytes.ReplaceAll(b, []byte("\n"), [][]byte{[]byte("\r\n"), []byte("\r"), []byte("\n\r"), []byte(" ")}[r.IntN(4)])
		case 8: // unterminated comment / comment in odd place
			b = append(b[:p:p], append([]byte([]string{"/*", "//", "/* x */", "// y\n"}[r.IntN(4)]), b[p:]...)...)
		case 9: // size hint edit
			if i := bytes.IndexByte(b[p:], '['); i >= 0 {
				if j := bytes.IndexByte(b[p+i:], ']'); j >= 0 {
					hint := []string{"", "0", "1", "99", "..", "1..", "..2", "2..1", "65536", "300000", "-1", " 5 ", "4294967296"}[r.IntN(13)]
					b = append(b[:p+i+1:p+i+1], append([]byte(hint), b[p+i+j:]...)...)
				}
			}
		default: // swap two bytes
			q := r.IntN(len(b))
			b[p], b[q] = b[q], b[p]
		}
	}
	return string(b)
}

// c14SafeInProcess: no size hint above 2·10^6 (such inputs pre-allocate from the hint, see the
// size-hint probes; they are run in the child only). Mirrors parseItemSize: after '[', optional
// white space, digits, optional white space, then '.', any one byte, digits.
func c14SafeInProcess(text string) bool {
	isWS := func(c byte) bool { return c == ' ' || c == '\t' || c == '\r' || c == '\n' }
	risky := func(d string) bool {
		if len(d) < 7 {
			return false
		}
		v, err := strconv.ParseUint(d, 10, 64)
		return err == nil && v <= 2147483647 && v > 2000000
	}
	for i := 0; i < len(text); i++ {
		if text[i] != '[' {
			continue
		}
		j := i + 1
		for j < len(text) && isWS(text[j]) {
			j++
		}
		k := j
		for k < len(text) && text[k] >= '0' && text[k] <= '9' {
			k++
		}
		if risky(text[j:k]) {
			return false
		}
		for k < len(text) && isWS(text[k]) {
			k++
		}
		if k < len(text) && text[k] == '.' {
			k += 2
			m := k
			for m < len(text) && text[m] >= '0' && text[m] <= '9' {
				m++
			}
			if k <= len(text) && risky(text[min(k, len(text)):m]) {
				return false
			}
		}
	}
	return true
}

func c14NormPanic(msg string) string {
	switch {
	case strings.Contains(msg, "index out of range"):
		return "index-out-of-range"
	case strings.Contains(msg, "slice bounds out of range"):
		return "slice-bounds-out-of-range"
	case strings.Contains(msg, "nil pointer"):
		return "nil-pointer"
	case strings.Contains(msg, "makeslice"), strings.Contains(msg, "Grow"):
		return "allocation-size"
	}
	return "other"
}

func c14CheckPos(c *Ctx, input, out string, replay map[string]any) {
	var off, line, col int
	if _, err := fmt.Sscanf(out, "syn %d %d %d", &off, &line, &col); err != nil {
		return
	}
	if off < 0 || off > len(input) {
		c.Violate("property", "error-offset-out-of-range", fmt.Sprintf("ParseError.Offset=%d for an input of %d bytes", off, len(input)), replay)
		return
	}
	wl := 1 + strings.Count(input[:off], "\n")
	wc := off - (strings.LastIndexByte(input[:off], '\n') + 1) + 1
	if line != wl || col != wc {
		c.Violate("property", "error-line-col-inconsistent", fmt.Sprintf("ParseError{Offset:%d Line:%d Col:%d}, the offset is line %d col %d", off, line, col, wl, wc), replay)
	}
}

func runC14(c *Ctx) {
	inputs := c14Inputs(c)
	type key struct {
		entry  string
		strict bool
	}
	modes := []key{{"all", false}, {"all", true}, {"one", false}, {"one", true}, {"hdr", false}, {"hdr", true}}
	seqOut := make([][]string, len(inputs)) // for the concurrency comparison
	// deterministic probes first: the representative replay of each signature is then seed-independent
	c14HintAllocation(c)
	c14ChildProbes(c)
	c14ConcurrentHelpers(c)
	for i, in := range inputs {
		c.Stat("tag:" + in.tag)
		if !c14SafeInProcess(in.text) {
			c.Stat("child-only-inputs")
			c14HintInput(c, in)
			continue
		}
		if i%173 == 0 {
			c.Sample(map[string]any{"tag": in.tag, "text": clip(in.text, 160)})
		}
		seqOut[i] = make([]string, len(modes))
		for k, m := range modes {
			if (in.tag == "mutation" || in.tag == "truncation" || in.tag == "random-soup") && k >= 2 && (i+k)%3 != 0 {
				continue // ParseMessage / ParseHeader share parseMsg with Parse: sample them on the bulk classes
			}
			c.Count(fmt.Sprintf("%s|%v|%s", m.entry, m.strict, in.text), strings.Contains(in.text, "<"))
			replay := map[string]any{"text": clip(in.text, 3000), "hex": clip(c15HexText(in.text), 6000), "strict": m.strict, "entry": m.entry, "tag": in.tag}
			out, pmsg := c14Guarded(m.entry, m.strict, in.text)
			seqOut[i][k] = out
			if out == "hang" {
				// the parse is still running after 20 s on a text of at most a few KiB (the proved bound is quadratic in
				// the length): it does not terminate. The goroutine cannot be stopped, so the run ends here with the
				// text as the replay (after seeded change C14d-2: an unterminated block comment spinning for ever).
				c.Violate("property", "parse-does-not-terminate", fmt.Sprintf("parser (strict=%v, %s) still running after 20 s on the %d-byte text %q", m.strict, m.entry, len(in.text), clip(in.text, 200)), replay)
				return
			}
			c.Stat("outcome:" + strings.SplitN(out, " ", 2)[0])
			if out == "panic" {
				c.Violate("property", "parse-panic-"+c14NormPanic(pmsg), fmt.Sprintf("parser (strict=%v, %s) panicked on %q: %s", m.strict, m.entry, clip(in.text, 200), pmsg), replay)
			}
			if out == "ok-but-body-undecodable" {
				c.Violate("property", "returned-message-invalid", "a returned message's body cannot be read", replay)
			}
			c14CheckPos(c, in.text, out, replay)
			if m.entry == "all" {
				switch {
				case in.tag == "nesting-after-lists-over" && strings.HasPrefix(out, "ok"):
					c.Violate("property", "depth-limit-not-enforced", fmt.Sprintf("parser (strict=%v) accepted a text nested deeper than %d lists after earlier closed lists: %q", m.strict, secs2.MaxListDepth, clip(in.text, 200)), replay)
				case in.tag == "nesting-after-lists-within" && !strings.HasPrefix(out, "ok"):
					c.Violate("property", "depth-limit-miscounted", fmt.Sprintf("parser (strict=%v) refused a text whose deepest path has at most %d lists (%s): %q", m.strict, secs2.MaxListDepth, out, clip(in.text, 200)), replay)
				}
			}
			if c.Lean != nil {
				_, depth, mo := c13SmlModelParse(c, m.entry, m.strict, in.text)
				if mo != out {
					c.Violate("correspondence", "model-parse-differs", fmt.Sprintf("parser (strict=%v, %s) gives %q, model %q on %q", m.strict, m.entry, clip(out, 300), clip(mo, 300), clip(in.text, 300)), replay)
				}
				if in.tag == "nesting" && k == 0 && strings.HasPrefix(out, "ok") {
					want := strings.Count(in.text, "<L") + strings.Count(in.text, "<U1")
					if depth != strconv.Itoa(want) {
						c.Violate("correspondence", "model-depth-differs", fmt.Sprintf("model reports recursion depth %s for %d nested items", depth, want), replay)
					}
				}
				c.Res.Traces++
			}
		}
	}
	c14Positions(c)
	c14Concurrency(c, inputs, seqOut, modes[0].entry)
	c14Steps(c)
}

// c14HintInput: an input with a size hint too large to try in-process: the model predicts the
// pre-allocation, the child process shows what the implementation does.
func c14HintInput(c *Ctx, in c14Input) {
	c.Count("child|"+in.text, true)
	replay := map[string]any{"text": clip(in.text, 3000), "tag": in.tag}
	if c.Lean != nil {
		alloc, _, _ := c13SmlModelParse(c, "all", false, in.text)
		if a, err := strconv.ParseUint(alloc, 10, 64); err == nil && a > 0 {
			c.Stat("model-predicts-hint-allocation")
			replay["model_hint_alloc_bytes"] = a
		}
	}
	res := c14RunChild(in.text, false, 0, 3072, 60*time.Second)
	c14JudgeHint(c, in.text, res, replay)
}

func c14JudgeHint(c *Ctx, text string, res c14ChildResult, replay map[string]any) {
	bound := uint64(64*len(text) + 1<<20)
	switch {
	case res.timedOut:
		c.Violate("property", "size-hint-preallocation", fmt.Sprintf("parsing %q did not finish within the time limit in a child process (3 GiB address space)", clip(text, 120)), replay)
	case res.crashed:
		c.Violate("property", "size-hint-preallocation", fmt.Sprintf("parsing the %d-byte text %q killed the child process (3 GiB address space): %s", len(text), clip(text, 120), res.reason), replay)
	case res.alloc > bound:
		c.Violate("property", "size-hint-preallocation", fmt.Sprintf("parsing the %d-byte text %q allocated %d bytes (bound 64·len+1MiB = %d): memory is taken from the size hint, not from the input", len(text), clip(text, 120), res.alloc, bound), replay)
	}
}

// c14Positions: newParseError's arithmetic against the model on arbitrary (input, offset) pairs —
// reached through inputs whose first error is at a known place.
func c14Positions(c *Ctx) {
	r := c.Rng
	for i := 0; i < c.Pick(300, 3000); i++ {
		// k lines of junk-free whitespace/comments, then an item with a bad type at a known offset
		var sb strings.Builder
		sb.WriteString("S1F1")
		for k := r.IntN(6); k > 0; k-- {
			sb.WriteString([]string{"\n", "\r\n", " ", "\t", "\n\n", "  \n "}[r.IntN(6)])
		}
		sb.WriteString("\n<L")
		for k := r.IntN(5); k > 0; k-- {
			sb.WriteString([]string{"\n", " ", "\n  ", "\r\n\t"}[r.IntN(4)])
			sb.WriteString([]string{"<A \"é漢\">", "<U1 1>", "<L>", "/* c\n d */", "// c\n"}[r.IntN(5)])
		}
		sb.WriteString([]string{"\n", " ", "\n   "}[r.IntN(3)])
		at := sb.Len()
		sb.WriteString("<?>>.")
		text := sb.String()
		out, _ := c13SmlOutcome("all", false, text)
		c.Count("pos|"+text, true)
		c.Stat("tag:position")
		replay := map[string]any{"text": text, "expected_offset_near": at}
		c14CheckPos(c, text, out, replay)
		if !strings.HasPrefix(out, "syn ") {
			c.Violate("property", "bad-item-type-accepted", fmt.Sprintf("%q: expected a syntax error, got %s", text, out), replay)
			continue
		}
		if c.Lean != nil {
			var off int
			fmt.Sscanf(out, "syn %d", &off)
			got := c.Lean.Ask(fmt.Sprintf("sml.perr %d %s", off, c15HexText(text)))
			if "syn "+got != out {
				c.Violate("correspondence", "model-position-differs", fmt.Sprintf("newParseError: impl %q model %q", out, got), replay)
			}
			// offsets beyond the input are clamped
			got = c.Lean.Ask(fmt.Sprintf("sml.perr %d %s", len(text)+1+r.IntN(5), c15HexText(text)))
			wl := 1 + strings.Count(text, "\n")
			wc := len(text) - (strings.LastIndexByte(text, '\n') + 1) + 1
			if got != fmt.Sprintf("%d %d %d", len(text), wl, wc) {
				c.Violate("correspondence", "model-position-clamp", "model newParseError does not clamp like the oracle: "+got, replay)
			}
		}
	}
}

// c14Concurrency: 16 goroutines, each with its own parsers and encoder, over the same inputs;
// every result must equal the sequential one. (-race in the thorough tier.)
func c14Concurrency(c *Ctx, inputs []c14Input, seqOut [][]string, _ string) {
	if !c14ConcurSafe {
		c.Note("in-process concurrency phases skipped: the child-process probe already reported a concurrency defect")
		return
	}
	var idx []int
	for i := range inputs {
		if seqOut[i] != nil && seqOut[i][0] != "" && seqOut[i][1] != "" && len(inputs[i].text) < 2000 {
			idx = append(idx, i)
		}
	}
	if len(idx) > c.Pick(600, 6000) {
		idx = idx[:c.Pick(600, 6000)]
	}
	shared := sml.NewEncoder(sml.WithEncoderStrictMode(true)) // documented safe for concurrent use
	item := secs2.L(secs2.A("a>\x00b"), secs2.U1(1, 2), secs2.L(secs2.F4(1.5)))
	msg, _ := hsms.NewDataMessage(1, 1, true, 0, [4]byte{}, item)
	wantEnc, _ := shared.EncodeMessage(msg)
	var wg sync.WaitGroup
	var mu sync.Mutex
	diffs := 0
	var first string
	for g := 0; g < 16; g++ {
		wg.Add(1)
		go func(g int) {
			defer wg.Done()
			for n, i := range idx {
				if (n+g)%4 != 0 { // each input is still parsed by 4 goroutines at about the same time
					continue
				}
				a, _ := c13SmlOutcome("all", false, inputs[i].text)
				b, _ := c13SmlOutcome("all", true, inputs[i].text)
				e, _ := shared.EncodeMessage(msg)
				own, _ := sml.NewEncoder(sml.WithEncoderStrictMode(true)).EncodeMessage(msg)
				if a != seqOut[i][0] || b != seqOut[i][1] || e != wantEnc || own != wantEnc {
					mu.Lock()
					diffs++
					if first == "" {
						first = inputs[i].text
					}
					mu.Unlock()
				}
			}
		}(g)
	}
	wg.Wait()
	// Distinct inputs per goroutine: cross-talk between instances only shows when the concurrent parsers work
	// on DIFFERENT texts (with identical texts a shared scratch buffer is invisible). Each goroutine owns a
	// strict and a non-strict parser and parses ASCII items of 1..200 bytes made of its own letter, with and
	// without size hints (added after seeded change C14a-1 — a pooled buffer returned twice — was missed).
	{
		_, _ = c13SmlOutcome("all", true, "S1F1 W\n<A[100] \""+strings.Repeat("z", 100)+"\">\n.") // a large hinted item first
		var wg2 sync.WaitGroup
		for g := 0; g < 8; g++ {
			wg2.Add(1)
			go func(g int) {
				defer wg2.Done()
				letter := string(rune('a' + g))
				for n := 0; n < c.Pick(400, 4000); n++ {
					ln := 1 + (n*7+g)%200
					val := strings.Repeat(letter, ln)
					text := "S1F1 W\n<A \"" + val + "\">\n."
					if n%3 == 0 {
						text = fmt.Sprintf("S1F1 W\n<A[%d] \"%s\">\n.", ln, val)
					}
					for _, strict := range []bool{true, false} {
						p := sml.NewParser(sml.WithParserStrictMode(strict))
						msgs, err := p.Parse(text)
						got := ""
						if err == nil && len(msgs) == 1 {
							if it, e := msgs[0].Item(); e == nil {
								got, _ = it.ToASCII()
							}
						}
						if got != val {
							mu.Lock()
							diffs++
							if first == "" {
								first = text + " -> " + got
							}
							mu.Unlock()
						}
					}
				}
			}(g)
		}
		wg2.Wait()
		c.StatN("concurrent-distinct-text-parses", 8*c.Pick(400, 4000)*2)
		c.Count("concurrency-distinct-texts", true)
	}
	c.StatN("concurrent-parses", len(idx)*8)
	c.Count("concurrency", true)
	if diffs > 0 {
		c.Violate("property", "concurrent-result-differs", fmt.Sprintf("%d results differed between concurrent and sequential use; first on %q", diffs, clip(first, 200)),
			map[string]any{"text": clip(first, 2000)})
	}
}

// c14HintAllocation: in-process measurement for moderate hints: bytes allocated while parsing a
// tiny text must not scale with the number written in the size hint.
func c14HintAllocation(c *Ctx) {
	for _, ty := range []string{"L", "A", "B", "BOOLEAN", "I4", "U8", "F8"} {
		for _, strict := range []bool{false, true} {
			body := " 1"
			switch ty {
			case "L":
				body = ""
			case "A":
				body = ` "x"`
			case "BOOLEAN":
				body = " T"
			}
			text := fmt.Sprintf("S1F1\n<%s[1000000]%s>\n.", ty, body)
			replay := map[string]any{"text": text, "strict": strict}
			c.Count(fmt.Sprintf("hint-alloc|%s|%v", ty, strict), true)
			c.Stat("tag:hint-allocation")
			runtime.GC()
			var m0, m1 runtime.MemStats
			runtime.ReadMemStats(&m0)
			out, _ := c13SmlOutcome("all", strict, text)
			runtime.ReadMemStats(&m1)
			alloc := m1.TotalAlloc - m0.TotalAlloc
			bound := uint64(64*len(text) + 1<<18)
			var model uint64
			if c.Lean != nil {
				a, _, mo := c13SmlModelParse(c, "all", strict, text)
				model, _ = strconv.ParseUint(a, 10, 64)
				if mo != out {
					c.Violate("correspondence", "model-parse-differs", fmt.Sprintf("parser gives %q, model %q on %q", out, mo, text), replay)
				}
				// the model's hint accounting must not exceed what the implementation really allocates
				if model > 0 && alloc < model/2 {
					c.Violate("correspondence", "model-hint-alloc-differs", fmt.Sprintf("model predicts %d bytes pre-allocated from the hint, implementation allocated %d in total", model, alloc), replay)
				}
				if model == 0 && alloc > bound {
					c.Violate("correspondence", "model-hint-alloc-differs", fmt.Sprintf("model predicts no hint allocation, implementation allocated %d bytes", alloc), replay)
				}
			}
			replay["allocated_bytes"] = alloc
			replay["model_hint_alloc_bytes"] = model
			if alloc > bound {
				c.Violate("property", "size-hint-preallocation", fmt.Sprintf("parsing the %d-byte text %q (strict=%v) allocated %d bytes (bound 64·len+256KiB = %d): memory is taken from the size hint, not from the input",
					len(text), text, strict, alloc, bound), replay)
			}
		}
	}
}

// c14ChildProbes: the two inputs from DESIGN §7, where the process itself is at stake.
func c14ChildProbes(c *Ctx) {
	// F2: 20 bytes asking for 2·10^9 list slots (32 GB)
	text := "S1F1\n<L[2000000000]>."
	c.Count("child|"+text, true)
	c.Stat("tag:child-probe")
	replay := map[string]any{"text": text, "child": "address space 3 GiB, timeout 60 s"}
	if c.Lean != nil {
		a, _, mo := c13SmlModelParse(c, "all", false, text)
		replay["model_hint_alloc_bytes"] = a
		replay["model_result"] = mo
	}
	c14JudgeHint(c, text, c14RunChild(text, false, 0, 3072, 60*time.Second), replay)

	// size hints at the integer boundaries (2^31, 2^32, 2^63 +-1, 2^64-1) in all three hint forms on quoted and
	// numeric items, both modes: whatever the hint, the answer is a result or an error, never a panic (arithmetic
	// on the hint such as max+2 or idx+1 must not wrap) and never an allocation from the hint. In a child process:
	// a panic or an out-of-memory there is the finding (after seeded change C14d-1).
	hintVals := []string{"2147483648", "4294967296", "9223372036854775806", "9223372036854775807", "9223372036854775808", "18446744073709551615"}
	hintItems := []string{`<A%s "x">`, `<U1%s 1>`, `<L%s <U1 1>>`}
	if c.Thorough() {
		hintVals = append(hintVals, "2147483647", "4294967295", "18446744073709551616")
		hintItems = append(hintItems, `<A%s 0x41>`, `<B%s 0x01>`)
	}
	for _, n := range hintVals {
		for _, form := range []string{"[%s]", "[1..%s]", "[..%s]", "[%s..]"} {
			hint := fmt.Sprintf(form, n)
			for _, item := range hintItems {
				t := "S1F1\n" + fmt.Sprintf(item, hint) + "."
				for _, strict := range []bool{false, true} {
					c.Count("child|"+t, true)
					c.Stat("tag:child-hint-boundary")
					res := c14RunChild(t, strict, 0, 3072, 60*time.Second)
					rp := map[string]any{"text": t, "strict": strict, "child": "address space 3 GiB, timeout 60 s"}
					switch {
					case res.timedOut:
						c.Violate("property", "size-hint-preallocation", fmt.Sprintf("parsing %q (strict=%v) did not finish within 60 s", t, strict), rp)
					case res.crashed:
						what := "size-hint-preallocation"
						if strings.Contains(res.reason, "index out of range") || strings.Contains(res.reason, "panic") {
							what = "parse-panic"
						}
						c.Violate("property", what, fmt.Sprintf("parsing the %d-byte text %q (strict=%v) killed the process: %s", len(t), t, strict, res.reason), rp)
					case res.alloc > 1<<20:
						c.Violate("property", "size-hint-preallocation", fmt.Sprintf("parsing %q (strict=%v) allocated %d bytes", t, strict, res.alloc), rp)
					}
				}
			}
		}
	}

	// F3: nesting. The child's stack limit is lowered to 64 MiB so that the probe is cheap; with
	// Go's default 1 GiB limit the same happens at ≈ 3·10^6 levels (6 MB of text).
	depth := 1000000
	deep := "S1F1\n" + strings.Repeat("<L", depth) + strings.Repeat(">", depth) + "\n."
	c.Count("child|nesting", true)
	replay2 := map[string]any{"text": fmt.Sprintf("S1F1\\n + \"<L\" x %d + \">\" x %d + \\n.", depth, depth), "child": "max stack 64 MiB, timeout 120 s"}
	for _, strict := range []bool{false, true} {
		res := c14RunChild(deep, strict, 64, 0, 120*time.Second)
		switch {
		case res.timedOut:
			c.Violate("property", "deep-nesting-timeout", fmt.Sprintf("%d nested lists (%d bytes): no answer within 120 s", depth, len(deep)), replay2)
		case res.crashed:
			c.Violate("property", "deep-nesting-stack-overflow", fmt.Sprintf("%d nested lists (%d bytes of text, strict=%v) crash the process: %s — list nesting recurses without a depth limit (secs2.MaxListDepth is %d)",
				depth, len(deep), strict, res.reason, secs2.MaxListDepth), replay2)
		}
	}
	// the model: recursion stops one level below the limit, with a syntax error, exactly like the implementation
	if c.Lean != nil {
		t := "S1F1\n" + strings.Repeat("<L", 3000) + strings.Repeat(">", 3000) + "."
		out, _ := c13SmlOutcome("all", false, t)
		_, d, mo := c13SmlModelParse(c, "all", false, t)
		if mo != out {
			c.Violate("correspondence", "model-parse-differs", fmt.Sprintf("3000 nested lists: parser %q, model %q", out, mo), nil)
		}
		if dn, err := strconv.Atoi(d); err != nil || dn > secs2.MaxListDepth+1 {
			c.Violate("correspondence", "model-depth-differs", "model recursion depth for 3000 nested lists: "+d, nil)
		}
	}
}

// ---------- time: the cost model (Model/SmlCost.lean, steps_quadratic_bound) against the implementation ----------

// c14Family is a text family pre + unit^k + post of about n bytes.
type c14Family struct {
	name   string
	pre    string
	unit   string
	post   string
	strict bool
	entry  string // all | one | hdr
	levels int    // doublings measured: sizes n0, 2·n0, …, 2^(levels-1)·n0
	modelN int    // largest size (bytes) the driver is asked about (0 = all levels); the model re-parses per nesting level
}

func (f c14Family) text(n int) string {
	k := (n - len(f.pre) - len(f.post)) / max(len(f.unit), 1)
	if k < 1 {
		k = 1
	}
	return f.pre + strings.Repeat(f.unit, k) + f.post
}

// c14Families: the adversarial shapes. "quadratic" in a comment = the model's step count is quadratic there.
func c14Families() []c14Family {
	deep := strings.Repeat("<L", 63) + strings.Repeat(">", 63)
	return []c14Family{
		// Parse: every message runs IndexAny / IndexByte('<') / Index("*/") over the whole unread input — quadratic
		{"many-empty-messages", "", "S1F1.\n", "", false, "all", 4, 0},
		{"many-empty-messages-strict", "", "S1F1.\n", "", true, "all", 4, 0},
		{"unterminated-comment-before-each-message", "", "/*:S1F1.\n", "", false, "all", 4, 0},
		{"unterminated-line-comment-messages", "", "//:S1F1.", "", false, "all", 4, 0},
		{"named-messages-with-bodies", "", "n:S1F1 W <L <U1 1>>.\n", "", false, "all", 4, 0},
		// strict ASCII: numStr += string(ch) copies the token for every byte — quadratic in the token
		{"strict-one-long-numeric-token", "S1F1\n<A ", "1", ">\n.", true, "one", 4, 0},
		{"strict-long-invalid-utf8-token", "S1F1\n<A ", "\xff", ">\n.", true, "one", 4, 0},
		{"strict-many-numeric-tokens", "S1F1\n<A ", "65 0x42 ", ">\n.", true, "one", 6, 0},
		{"strict-long-quoted-run-with-escapes", "S1F1\n<A \"", "ab\\\\c\\>", "\">\n.", true, "one", 6, 0},
		{"strict-unclosed-quote", "S1F1\n<A \"", "a", "", true, "one", 6, 0},
		// non-strict ASCII: one checkASCIICloseQuote per byte, each scanning the white space behind a quote
		{"fast-quote-space-pairs", "S1F1\n<A \"", "\" ", "x\">\n.", false, "one", 6, 0},
		{"fast-quote-then-long-space-runs", "S1F1\n<A \"", "\"" + strings.Repeat(" ", 200) + "x", "\">\n.", false, "one", 6, 0},
		{"fast-long-plain-string", "S1F1\n<A \"", "abcdefgh", "\">\n.", false, "one", 6, 0},
		{"fast-unterminated-string", "S1F1\n<A \"", "abcdefgh", "", false, "one", 6, 0},
		{"fast-wrong-size-hint", "S1F1\n<A[5] \"", "abcdefgh", "\">\n.", false, "one", 6, 0},
		// lists
		{"wide-list-of-empty-lists", "S1F1\n<L ", "<L>", ">.", false, "all", 6, 0},
		{"wide-list-of-small-items", "S1F1\n<L ", "<U1 1> <A \"x\"> ", ">\n.", false, "all", 6, 0},
		{"wide-list-of-small-items-strict", "S1F1\n<L ", "<U1 1> <A \"x\" 0x41> ", ">\n.", true, "all", 6, 0},
		{"nesting-to-the-limit-repeated", "S1F1\n<L ", deep, ">.", false, "all", 6, 8192},
		{"nesting-beyond-the-limit", "S1F1\n", "<L", ".", false, "all", 6, 8192},
		{"comment-after-every-item", "S1F1\n<L ", "<U1 1> /* c */ ", ">\n.", false, "all", 6, 0},
		{"line-comment-after-every-item", "S1F1\n<L ", "<B 1> // c\n", ">\n.", false, "all", 6, 0},
		{"one-long-comment", "S1F1\n<L /*", "c", "*/>.", false, "all", 6, 0},
		{"one-long-unterminated-comment-in-list", "S1F1\n<L <L> /*", "c", "", false, "all", 6, 0},
		// value items, long tokens
		{"many-numeric-values", "S1F1\n<U2 ", "65535 ", ">.", false, "one", 6, 0},
		{"many-boolean-values", "S1F1\n<Boolean ", "T f ", ">.", false, "one", 6, 0},
		{"one-long-numeric-value", "S1F1\n<U8 ", "9", ">.", false, "one", 4, 8192},
		{"one-long-bad-boolean", "S1F1\n<BOOLEAN ", "t", ">.", false, "one", 6, 0},
		{"value-item-without-close", "S1F1\n<I4 ", "1 ", "", false, "one", 6, 0},
		{"long-white-space-everywhere", "S1F1", " \t\r\n", "<L>.", false, "all", 6, 0},
		// strings in J / W
		{"many-quotes-in-jis8", "S1F1\n<J \"", "\" ", "\">\n.", false, "one", 6, 0},
		{"many-gt-in-jis8", "S1F1\n<J \"", "a>", "\">\n.", false, "one", 6, 0},
		{"unterminated-localized", "S1F1\n<W \"", "ab", "", false, "one", 6, 0},
		// headers
		{"long-message-name", "", "n", ":S1F1 W\n<L>.", false, "one", 6, 0},
		{"header-only-long-tail", "S1F1 W", " x", ".", false, "hdr", 6, 0},
		{"no-terminator-at-all", "S1F1 W ", "x", "", false, "all", 6, 0},
		// error reporting: newParseError walks input[:offset]
		{"error-at-the-end-of-many-lines", "S1F1\n<L ", "<L>\n", "<?>>.", false, "all", 6, 0},
	}
}

// allowances per model step (wide: observed values are 0.05-10 ns and 0-7 bytes per step, the highest under load)
const c14BytesPerStep = 64.0

// c14NsPerStep is a variable only because the race detector (thorough tier) slows every memory access 5-15 x.
var c14NsPerStep = func() float64 {
	if raceBuild {
		return 3000
	}
	return 200
}()

// c14StepsBound: steps_quadratic_bound (Props/C14.lean).
func c14StepsBound(entry string, n int) float64 {
	x := float64(n)
	if entry == "all" {
		return 19*x*x + 158*x + 66
	}
	return 10*x*x + 88*x + 65
}

func c14ModelSteps(c *Ctx, f c14Family, text string) (float64, bool) {
	ans := c.Lean.Ask(fmt.Sprintf("sml.steps %s %s - %s", c13B01(f.strict), f.entry, c15HexText(text)))
	v, err := strconv.ParseUint(ans, 10, 64)
	if err != nil {
		return 0, false // "undetermined": the text has a token outside the modelled literal subset
	}
	return float64(v), true
}

type c14Meas struct {
	n     int
	ns    float64 // best wall-clock time of one parse
	alloc float64 // bytes allocated by one parse (runtime.MemStats.TotalAlloc)
	steps float64 // model step count (0 = not asked)
	out   string
}

// c14ParseOnly: the parse alone (no rendering of the result), panics contained.
func c14ParseOnly(entry string, strict bool, text string) {
	defer func() { _ = recover() }()
	p := sml.NewParser(sml.WithParserStrictMode(strict))
	switch entry {
	case "all":
		_, _ = p.Parse(text)
	case "one":
		_, _ = p.ParseMessage(text)
	default:
		_, _ = p.ParseHeader(text)
	}
}

// c14Measure runs the real parser on text: best time of several runs, allocation of one run.
func c14Measure(f c14Family, text string) (ns float64, alloc float64, out, pmsg string) {
	out, pmsg = c13SmlOutcome(f.entry, f.strict, text) // warm-up, outcome
	var m0, m1 runtime.MemStats
	runtime.GC()
	runtime.ReadMemStats(&m0)
	t0 := time.Now()
	c14ParseOnly(f.entry, f.strict, text)
	first := time.Since(t0)
	runtime.ReadMemStats(&m1)
	alloc = float64(m1.TotalAlloc - m0.TotalAlloc)
	best := first
	spent := first
	for reps := 1; reps < 25 && (reps < 3 || spent < 20*time.Millisecond); reps++ {
		t0 = time.Now()
		c14ParseOnly(f.entry, f.strict, text)
		el := time.Since(t0)
		spent += el
		if el < best {
			best = el
		}
		if spent > 3*time.Second {
			break
		}
	}
	return float64(best.Nanoseconds()), alloc, out, pmsg
}

func c14Exp(a, b float64, na, nb int) float64 {
	if a <= 0 || b <= 0 || na == nb {
		return 0
	}
	return math.Log(b/a) / math.Log(float64(nb)/float64(na))
}

// c14RunFamily measures one family over its doubling sizes and judges the growth.
//
//	property        at every size, time <= 5 ms + 10 ns x (steps the proved bound allows); between the smallest and the
//	                largest size allocation (deterministic) grows at most 6 x (size ratio)^2: what
//	                steps_quadratic_bound allows, with a wide margin (observation, not proof)
//	correspondence  the model's step count stays under the proved bound; at every size, time <= 5 ms + 200 ns per model
//	                step and allocation <= 256 KiB + 64 bytes per model step (observed: 0.05-10 ns, 0-7 bytes), and
//	                allocation grows at most 3 x as fast as the model's steps: the cost model does not miss a scan or
//	                a copy the implementation performs
func c14RunFamily(c *Ctx, f c14Family, n0 int) {
	var ms []c14Meas
	for lv := 0; lv < f.levels; lv++ {
		n := n0 << lv
		text := f.text(n)
		m := c14Meas{n: len(text)}
		var pmsg string
		m.ns, m.alloc, m.out, pmsg = c14Measure(f, text)
		c.Count(fmt.Sprintf("steps|%s|%d", f.name, n), strings.Contains(text, "<"))
		c.Stat("tag:steps-family-size")
		replay := map[string]any{"family": f.name, "pre": f.pre, "unit": f.unit, "post": f.post, "strict": f.strict, "entry": f.entry, "bytes": len(text)}
		if m.out == "panic" {
			c.Violate("property", "parse-panic-"+c14NormPanic(pmsg), fmt.Sprintf("parser panicked on family %s (%d bytes): %s", f.name, len(text), pmsg), replay)
		}
		if m.ns > 20e9 {
			c.Violate("property", "parse-time-superpolynomial", fmt.Sprintf("family %s (%d bytes) took %.1f s", f.name, len(text), m.ns/1e9), replay)
		}
		if c.Lean != nil && (f.modelN == 0 || len(text) <= f.modelN) {
			if st, ok := c14ModelSteps(c, f, text); ok {
				m.steps = st
				c.Res.Traces++
				if st > c14StepsBound(f.entry, len(text)) {
					c.Violate("correspondence", "model-steps-exceed-proved-bound", fmt.Sprintf("family %s, %d bytes: the model counts %.0f steps, steps_quadratic_bound allows %.0f", f.name, len(text), st, c14StepsBound(f.entry, len(text))), replay)
				}
				_, _, mo := c13SmlModelParse(c, f.entry, f.strict, text)
				if mo != m.out {
					c.Violate("correspondence", "model-parse-differs", fmt.Sprintf("family %s (%d bytes): parser gives %q, model %q", f.name, len(text), clip(m.out, 200), clip(mo, 200)), replay)
				}
			} else {
				c.Stat("steps-undetermined")
			}
		}
		ms = append(ms, m)
	}
	a, b := ms[0], ms[len(ms)-1]
	sizeRatio := float64(b.n) / float64(a.n)
	replay := map[string]any{"family": f.name, "pre": f.pre, "unit": f.unit, "post": f.post, "strict": f.strict, "entry": f.entry,
		"bytes": []int{a.n, b.n}, "ns": []float64{a.ns, b.ns}, "alloc_bytes": []float64{a.alloc, b.alloc}}
	// what the proved bound allows, with a wide margin.  Time is judged in absolute terms only (5 ms + 10 ns per step
	// of the bound, at every size): growth RATIOS of wall-clock time are not stable at these sizes (a 1 KiB token is
	// copied inside the allocator's small-object caches, an 8 KiB one is a page-zeroing large object: x20 per byte).
	// Allocation is deterministic and judged by its growth.
	for _, m := range ms {
		if m.ns > 5e6+c14NsPerStep/20*c14StepsBound(f.entry, m.n) {
			c.Violate("property", "parse-time-exceeds-quadratic-bound", fmt.Sprintf("family %s: %d bytes take %.3g ms, more than 5 ms + %.0f ns x (the %.3g steps steps_quadratic_bound allows)",
				f.name, m.n, m.ns/1e6, c14NsPerStep/20, c14StepsBound(f.entry, m.n)), replay)
		}
	}
	if b.alloc > 1<<20 && b.alloc/math.Max(a.alloc, 4096) > 6*sizeRatio*sizeRatio {
		c.Violate("property", "parse-allocation-superquadratic", fmt.Sprintf("family %s: %d bytes allocate %.0f bytes, %d bytes allocate %.0f", f.name, a.n, a.alloc, b.n, b.alloc), replay)
	}
	// against the model: the last size the model was asked about
	var ma, mb *c14Meas
	for i := range ms {
		if ms[i].steps > 0 {
			if ma == nil {
				ma = &ms[i]
			}
			mb = &ms[i]
		}
	}
	line := fmt.Sprintf("steps family=%s strict=%v entry=%s bytes=%d..%d time-exp=%.2f alloc-exp=%.2f", f.name, f.strict, f.entry, a.n, b.n,
		c14Exp(a.ns, b.ns, a.n, b.n), c14Exp(math.Max(a.alloc, 1), math.Max(b.alloc, 1), a.n, b.n))
	if ma != nil {
		// absolute: time and allocation per model step, at every size the model was asked about
		worstNs, worstB := 0.0, 0.0
		for _, m := range ms {
			if m.steps <= 0 {
				continue
			}
			worstNs = math.Max(worstNs, m.ns/m.steps)
			worstB = math.Max(worstB, m.alloc/m.steps)
			rp := map[string]any{"family": f.name, "pre": f.pre, "unit": f.unit, "post": f.post, "strict": f.strict, "entry": f.entry, "bytes": m.n, "ns": m.ns, "alloc_bytes": m.alloc, "model_steps": m.steps}
			if m.ns > 5e6+c14NsPerStep*m.steps {
				c.Violate("correspondence", "time-exceeds-model-steps", fmt.Sprintf("family %s, %d bytes: %.3g ms for %.0f model steps (allowed 5 ms + %.0f ns per step): the cost model misses a scan the implementation performs",
					f.name, m.n, m.ns/1e6, m.steps, c14NsPerStep), rp)
			}
			if m.alloc > 1<<18+c14BytesPerStep*m.steps {
				c.Violate("correspondence", "allocation-exceeds-model-steps", fmt.Sprintf("family %s, %d bytes: %.0f bytes allocated for %.0f model steps (allowed 256 KiB + %.0f bytes per step): the cost model misses a copy the implementation performs",
					f.name, m.n, m.alloc, m.steps, c14BytesPerStep), rp)
			}
		}
		line += fmt.Sprintf(" ns/step<=%.3g B/step<=%.3g", worstNs, worstB)
	}
	if ma != nil && mb != ma {
		stepRatio := mb.steps / ma.steps
		mexp := c14Exp(ma.steps, mb.steps, ma.n, mb.n)
		line += fmt.Sprintf(" model-exp=%.2f model-steps=%.0f..%.0f (bound %.0f)", mexp, ma.steps, mb.steps, c14StepsBound(f.entry, mb.n))
		if mexp > 1.5 {
			c.Stat("steps-families-quadratic-in-the-model")
		} else {
			c.Stat("steps-families-linear-in-the-model")
		}
		// growth (deterministic proxy): allocation against the model's steps, extrapolated with the model's own
		// exponent where the model was not asked about the largest size
		pred := stepRatio * math.Pow(float64(b.n)/float64(mb.n), math.Max(mexp, 1)) * math.Pow(float64(ma.n)/float64(a.n), math.Max(mexp, 1))
		replay["model_steps"] = []float64{ma.steps, mb.steps}
		if b.alloc > 1<<20 && b.alloc/math.Max(a.alloc, 4096) > 3*pred {
			c.Violate("correspondence", "allocation-grows-faster-than-model-steps", fmt.Sprintf("family %s: allocation x%.0f (%.0f -> %.0f bytes) where the model's steps grow x%.0f: the cost model misses a copy",
				f.name, b.alloc/math.Max(a.alloc, 4096), a.alloc, b.alloc, pred), replay)
		}
	}
	// families that are linear in the model: two more doublings on the implementation alone, judged against the
	// model's steps extrapolated linearly (the driver is not asked: it would take seconds per text).  A re-scan per
	// item or per message that the model does not have costs seconds here, against an allowance of a few hundred ms.
	if ma != nil && mb != ma && c14Exp(ma.steps, mb.steps, ma.n, mb.n) < 1.2 && f.levels >= 6 {
		for lv := f.levels; lv < f.levels+2; lv++ {
			text := f.text(n0 << lv)
			ns, alloc, _, _ := c14Measure(f, text)
			pred := mb.steps * float64(len(text)) / float64(mb.n)
			c.Count(fmt.Sprintf("steps|%s|%d", f.name, n0<<lv), strings.Contains(text, "<"))
			c.Stat("tag:steps-family-size-extrapolated")
			rp := map[string]any{"family": f.name, "pre": f.pre, "unit": f.unit, "post": f.post, "strict": f.strict, "entry": f.entry, "bytes": len(text), "ns": ns, "alloc_bytes": alloc, "model_steps_extrapolated": pred}
			if ns > 5e6+c14NsPerStep*pred {
				c.Violate("correspondence", "time-exceeds-model-steps", fmt.Sprintf("family %s, %d bytes: %.3g ms for about %.0f model steps (linear in the model; allowed 5 ms + %.0f ns per step): the cost model misses a scan the implementation performs",
					f.name, len(text), ns/1e6, pred, c14NsPerStep), rp)
			}
			if alloc > 1<<18+c14BytesPerStep*pred {
				c.Violate("correspondence", "allocation-exceeds-model-steps", fmt.Sprintf("family %s, %d bytes: %.0f bytes allocated for about %.0f model steps (linear in the model; allowed 256 KiB + %.0f bytes per step)",
					f.name, len(text), alloc, pred, c14BytesPerStep), rp)
			}
			line += fmt.Sprintf(" [%d bytes: %.3g ns/step]", len(text), ns/pred)
		}
	}
	c.Note("%s", line)
}

// c14WorstByModel asks the driver which periodic texts cost the most steps (both modes) and returns the
// winners as families: the model's own worst cases, then measured on the implementation like the others.
func c14WorstByModel(c *Ctx) []c14Family {
	if c.Lean == nil {
		return nil
	}
	r := c.Rng
	pieces := []string{"S1F1.", "S1F1.\n", "/*", "//", ":", "n:", "<L", "<L>", ">", "<A ", "<A \"", "\"", "\" ", "'", " ", "\n", "1", "12 ", "0x41 ", "\\", "\xff", "\xe6\xbc\xa2",
		"<U1 1>", "<J \"", "<W \"", "<B ", "<BOOLEAN ", "T ", "[1]", "[", "..", ".", "W", "S1F1 W\n", "*/", "x"}
	wraps := [][2]string{{"", ""}, {"S1F1\n<L ", ">."}, {"S1F1\n<A ", ">."}, {"S1F1\n<A \"", "\">."}, {"S1F1\n<J \"", "\">."}, {"S1F1\n<U1 ", ">."}, {"S1F1\n", "."}}
	type cand struct {
		f     c14Family
		steps float64
	}
	var best []cand
	n := 1536
	seen := map[string]bool{}
	for i := 0; i < c.Pick(160, 600); i++ {
		unit := ""
		for k := 1 + r.IntN(3); k > 0; k-- {
			unit += pieces[r.IntN(len(pieces))]
		}
		w := wraps[r.IntN(len(wraps))]
		f := c14Family{name: "model-worst", pre: w[0], unit: unit, post: w[1], strict: r.IntN(2) == 0, entry: "all", levels: 4}
		key := fmt.Sprint(f.pre, "|", f.unit, "|", f.post, "|", f.strict)
		if seen[key] {
			continue
		}
		seen[key] = true
		text := f.text(n)
		st, ok := c14ModelSteps(c, f, text)
		c.Stat("tag:steps-model-search")
		c.Count("steps-search|"+key, strings.Contains(text, "<"))
		if !ok {
			continue
		}
		if st > c14StepsBound("all", len(text)) {
			c.Violate("correspondence", "model-steps-exceed-proved-bound", fmt.Sprintf("%q x k in %q…%q (%d bytes): the model counts %.0f steps, steps_quadratic_bound allows %.0f", unit, w[0], w[1], len(text), st, c14StepsBound("all", len(text))),
				map[string]any{"pre": f.pre, "unit": f.unit, "post": f.post, "strict": f.strict, "bytes": len(text)})
		}
		best = append(best, cand{f, st / float64(len(text)) / float64(len(text))})
	}
	sort.Slice(best, func(i, j int) bool { return best[i].steps > best[j].steps })
	var out []c14Family
	for i := 0; i < len(best) && i < 3; i++ {
		f := best[i].f
		f.name = fmt.Sprintf("model-worst-%d", i+1)
		c.Note("steps search: #%d by the model: %q x k in %q…%q strict=%v: %.3f steps per byte^2 at %d bytes", i+1, f.unit, f.pre, f.post, f.strict, best[i].steps, n)
		out = append(out, f)
	}
	return out
}

// c14Steps: the measurement phase for the TIME clause.
func c14Steps(c *Ctx) {
	n0 := c.Pick(1024, 2048)
	fams := append(c14Families(), c14WorstByModel(c)...)
	for _, f := range fams {
		c14RunFamily(c, f, n0)
	}
	// one large instance of each quadratic shape, implementation only: absolute guard with a very wide margin
	n := c.Pick(20000, 60000)
	shapes := map[string]string{
		"many-empty-messages": strings.Repeat("S1F1.\n", n),
		"long-strict-ascii":   "S1F1\n<A \"" + strings.Repeat("ab\\\\c", n) + "\">\n.",
		"many-comments":       "S1F1\n<L " + strings.Repeat("<U1 1> /* c */ ", n) + ">\n.",
		"many-quotes-in-jis8": "S1F1\n<J \"" + strings.Repeat("\" ", n) + "\">\n.",
		"wide-list":           "S1F1\n<L " + strings.Repeat("<L>", n) + ">.",
	}
	for name, text := range shapes {
		for _, strict := range []bool{false, true} {
			t0 := time.Now()
			out, pmsg := c13SmlOutcome("all", strict, text)
			el := time.Since(t0)
			c.Count("timing|"+name+fmt.Sprint(strict), true)
			c.Stat("tag:timing")
			if out == "panic" {
				c.Violate("property", "parse-panic-"+c14NormPanic(pmsg), "parser panicked on timing shape "+name+": "+pmsg, map[string]any{"shape": name, "n": n})
			}
			if el > 20*time.Second {
				c.Violate("property", "parse-time-superpolynomial", fmt.Sprintf("shape %s (%d bytes) took %v", name, len(text), el), map[string]any{"shape": name, "n": n})
			}
		}
	}
}
