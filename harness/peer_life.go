package main

// peer_life.go — harness-owned in-memory network, scripted HSMS-SS peer and cutting logic for the
// connection-lifecycle properties (C10, C11).  Every net.Conn / net.Listener the library ever sees is
// created and tracked here (net.Pipe based, no ports).  All identifiers are prefixed `life`.

import (
	"context"
	"encoding/binary"
	"errors"
	"fmt"
	"io"
	"net"
	"runtime"
	"slices"
	"strings"
	"sync"
	"sync/atomic"
	"time"
)

// ---- HSMS wire helpers (written from SEMI E37, independent of the library's encoder) ----

const (
	lifeSTData        = 0
	lifeSTSelectReq   = 1
	lifeSTSelectRsp   = 2
	lifeSTDeselectReq = 3
	lifeSTDeselectRsp = 4
	lifeSTLinktestReq = 5
	lifeSTLinktestRsp = 6
	lifeSTRejectReq   = 7
	lifeSTSeparateReq = 9
)

type lifeFrame struct {
	Session uint16
	B2, B3  byte
	PType   byte
	SType   byte
	Sys     [4]byte
	Body    []byte
}

func (f lifeFrame) bytes() []byte {
	out := make([]byte, 14+len(f.Body))
	binary.BigEndian.PutUint32(out[0:4], uint32(10+len(f.Body)))
	binary.BigEndian.PutUint16(out[4:6], f.Session)
	out[6], out[7], out[8], out[9] = f.B2, f.B3, f.PType, f.SType
	copy(out[10:14], f.Sys[:])
	copy(out[14:], f.Body)
	return out
}

func lifeParseFrame(b []byte) lifeFrame {
	f := lifeFrame{Session: binary.BigEndian.Uint16(b[4:6]), B2: b[6], B3: b[7], PType: b[8], SType: b[9]}
	copy(f.Sys[:], b[10:14])
	f.Body = append([]byte(nil), b[14:]...)
	return f
}

// ---- tracked conn / listener ----

// lifeConn is the library-side end of a net.Pipe, wrapped so the harness sees Close calls.
type lifeConn struct {
	net.Conn
	id     int
	net    *lifeNet
	closed atomic.Bool
}

func (c *lifeConn) Close() error {
	c.closed.Store(true)
	return c.Conn.Close()
}

type lifeAddr struct{}

func (lifeAddr) Network() string { return "lifepipe" }
func (lifeAddr) String() string  { return "lifepipe" }

// lifeListener is an in-memory listener: Accept hands out conns pushed by deliver.
type lifeListener struct {
	id     int
	net    *lifeNet
	ch     chan net.Conn
	done   chan struct{}
	once   sync.Once
	closed atomic.Bool
	// late, when set, makes Close hand an established connection to an Accept that is parked at that very moment
	// (a peer whose connection completes just as the application closes the endpoint): the library has adopted a
	// socket while shutting down and must still close it (C10, after seeded change C10c-1).
	late     func(harnessEnd net.Conn)
	lateDone atomic.Bool
}

func (l *lifeListener) Accept() (net.Conn, error) {
	select {
	case c := <-l.ch:
		return c, nil
	case <-l.done:
		return nil, net.ErrClosed
	}
}

func (l *lifeListener) Close() error {
	l.closed.Store(true)
	l.once.Do(func() {
		if l.late != nil {
			a, b := net.Pipe()
			lc := l.net.track(a)
			select {
			case l.ch <- lc: // an Accept was parked: it returns this connection, not the closed error
				l.lateDone.Store(true) // (like an ordinary delivery, the accept itself is a hidden step of the model)
				go l.late(b)
			default:
				_ = a.Close()
				_ = b.Close()
				lc.closed.Store(true) // never handed to the library
			}
		}
		close(l.done)
	})
	return nil
}
func (l *lifeListener) Addr() net.Addr { return lifeAddr{} }

// deliver offers a fresh pipe to the library's Accept; it returns the harness end, or nil if the
// listener was closed first.
func (l *lifeListener) deliver() net.Conn {
	a, b := net.Pipe()
	lc := l.net.track(a)
	select {
	case l.ch <- lc:
		return b
	case <-l.done:
		_ = a.Close()
		_ = b.Close()
		lc.closed.Store(true) // never handed to the library
		return nil
	}
}

// lifeAttempt records one invocation of the dialer / listener factory.
type lifeAttempt struct {
	N      int
	At     time.Time
	Ret    time.Time
	OK     bool
	Ctx    context.Context // the generation ctx the library passed (active: possibly wrapped with a timeout)
	Listen *lifeListener
	// blackholed dials (C10): the dialer blocked until its ctx was done
	Hole        bool
	FromLoop    bool   // invoked from the reconnect loop (connectLoop), not from Open under lifeMu
	HadDeadline bool   // the dial ctx carried a deadline (WithConnectTimeout configured)
	CtxErr      string // "canceled" | "deadline" | "stuck" (hard cap hit) — how the blackholed dial ended
}

// lifeNet owns everything network-like for ONE connection under test.
type lifeNet struct {
	mu        sync.Mutex
	conns     []*lifeConn
	listeners []*lifeListener
	attempts  []*lifeAttempt
	obs       []string // observation log (total order) for life.hist
	dbg       []string // free-form debug log (peer exits etc.), never fed to the model
	// plan decides what dial / listen attempt n does: ok=false → refuse. For an accepted active dial
	// serve is run on the harness end of the pipe (in its own goroutine).
	plan func(n int) (ok bool, serve func(peer net.Conn))
	// hole (optional, active role) says whether dial attempt n is BLACKHOLED: the peer neither accepts
	// nor refuses, so the dialer blocks until its ctx is done (cancelled by a teardown, or its
	// per-attempt deadline) and then returns the ctx error — what net.Dialer.DialContext does.
	hole func(n int) bool
	// onListen is called (in a goroutine) with each successful listener (passive role).
	onListen func(n int, l *lifeListener)
	wg       sync.WaitGroup // harness-side peer goroutines
	leaked   []string       // harness-owned objects force-closed by waitPeers (still reported by openResources)
}

// waitPeers waits for the harness-side peer goroutines. A peer goroutine serving a connection ends when the library
// closes its end; if the library LEAKED a socket (handed over by the dialer / listener and never closed) that wait would
// never end and the leak would surface as a harness time-out instead of an input. After a grace period the still-open
// harness-owned objects are remembered in `leaked` (openResources keeps reporting them) and force-closed underneath.
func (n *lifeNet) waitPeers() {
	done := make(chan struct{})
	go func() { n.wg.Wait(); close(done) }()
	select {
	case <-done:
		return
	case <-time.After(4 * time.Second):
	}
	n.mu.Lock()
	for _, c := range n.conns {
		if !c.closed.Load() {
			n.leaked = append(n.leaked, fmt.Sprintf("conn#%d", c.id))
			_ = c.Conn.Close()
		}
	}
	n.mu.Unlock()
	select {
	case <-done:
	case <-time.After(10 * time.Second): // something else is wedged: let the caller's own oracles and watchdogs speak
	}
}

func (n *lifeNet) track(c net.Conn) *lifeConn {
	n.mu.Lock()
	defer n.mu.Unlock()
	lc := &lifeConn{Conn: c, id: len(n.conns), net: n}
	n.conns = append(n.conns, lc)
	return lc
}

func (n *lifeNet) log(ev string) {
	n.mu.Lock()
	n.obs = append(n.obs, ev)
	n.mu.Unlock()
}

func (n *lifeNet) debugf(format string, a ...any) {
	n.mu.Lock()
	n.dbg = append(n.dbg, fmt.Sprintf("%s ", time.Now().Format("15:04:05.000000"))+fmt.Sprintf(format, a...))
	n.mu.Unlock()
}

func (n *lifeNet) debugLog() []string {
	n.mu.Lock()
	defer n.mu.Unlock()
	return append([]string(nil), n.dbg...)
}

func (n *lifeNet) observations() []string {
	n.mu.Lock()
	defer n.mu.Unlock()
	return append([]string(nil), n.obs...)
}

func (n *lifeNet) attemptsCopy() []lifeAttempt {
	n.mu.Lock()
	defer n.mu.Unlock()
	out := make([]lifeAttempt, len(n.attempts))
	for i, a := range n.attempts {
		out[i] = *a
	}
	return out
}

func (n *lifeNet) nAttempts() int {
	n.mu.Lock()
	defer n.mu.Unlock()
	return len(n.attempts)
}

var errLifeRefused = errors.New("lifenet: connection refused (scripted)")

// dial is the hsms.DialFunc handed to the library (active role).
func (n *lifeNet) dial(ctx context.Context, _, _ string) (net.Conn, error) {
	n.mu.Lock()
	at := &lifeAttempt{N: len(n.attempts), At: time.Now(), Ctx: ctx}
	n.attempts = append(n.attempts, at)
	plan := n.plan
	hole := n.hole
	n.mu.Unlock()
	if hole != nil && hole(at.N) {
		fromLoop := lifeCalledFromConnectLoop()
		_, hasDl := ctx.Deadline()
		if !fromLoop && !hasDl {
			// Open's own synchronous dial with no connect timeout configured would block for the OS connect
			// timeout while holding lifeMu (nothing can cancel it): not a scenario with a bound to check.
			n.mu.Lock()
			n.obs = append(n.obs, "dial.fail")
			at.Ret = time.Now()
			n.mu.Unlock()
			return nil, errLifeRefused
		}
		n.mu.Lock()
		at.Hole, at.FromLoop, at.HadDeadline = true, fromLoop, hasDl
		n.mu.Unlock()
		how := "stuck"
		select {
		case <-ctx.Done():
			if errors.Is(ctx.Err(), context.DeadlineExceeded) {
				how = "deadline"
			} else {
				how = "canceled"
			}
		case <-time.After(45 * time.Second): // hard cap so a history can never wedge the harness
		}
		n.mu.Lock()
		n.obs = append(n.obs, "dial.fail")
		at.CtxErr = how
		at.Ret = time.Now()
		n.mu.Unlock()
		if err := ctx.Err(); err != nil {
			return nil, err
		}
		return nil, errLifeRefused
	}
	ok, serve := true, (func(net.Conn))(nil)
	if plan != nil {
		ok, serve = plan(at.N)
	}
	if !ok {
		n.mu.Lock()
		n.obs = append(n.obs, "dial.fail")
		at.Ret = time.Now()
		n.mu.Unlock()
		return nil, errLifeRefused
	}
	a, b := net.Pipe()
	lc := n.track(a)
	n.mu.Lock()
	n.obs = append(n.obs, "dial.ok")
	at.OK = true
	at.Ret = time.Now()
	n.mu.Unlock()
	if serve != nil {
		n.wg.Add(1)
		go func() { defer n.wg.Done(); serve(b) }()
	} else {
		n.wg.Add(1)
		go func() { defer n.wg.Done(); _, _ = io.Copy(io.Discard, b) }()
	}
	return lc, nil
}

// lifeCalledFromConnectLoop reports whether the current goroutine is the library's reconnect loop
// (as opposed to Open's synchronous first dial under lifeMu).
func lifeCalledFromConnectLoop() bool {
	pcs := make([]uintptr, 64)
	k := runtime.Callers(2, pcs)
	fr := runtime.CallersFrames(pcs[:k])
	for {
		f, more := fr.Next()
		if strings.HasSuffix(f.Function, ".connectLoop") || strings.Contains(f.Function, ").connectLoop") {
			return true
		}
		if !more {
			return false
		}
	}
}

// listen is the hsms.ListenFunc handed to the library (passive role).
func (n *lifeNet) listen(ctx context.Context, _, _ string) (net.Listener, error) {
	n.mu.Lock()
	at := &lifeAttempt{N: len(n.attempts), At: time.Now(), Ctx: ctx}
	n.attempts = append(n.attempts, at)
	plan := n.plan
	n.mu.Unlock()
	ok := true
	if plan != nil {
		ok, _ = plan(at.N)
	}
	if !ok {
		n.mu.Lock()
		n.obs = append(n.obs, "dial.fail")
		at.Ret = time.Now()
		n.mu.Unlock()
		return nil, errLifeRefused
	}
	l := &lifeListener{net: n, ch: make(chan net.Conn), done: make(chan struct{})}
	n.mu.Lock()
	l.id = len(n.listeners)
	n.listeners = append(n.listeners, l)
	n.obs = append(n.obs, "dial.ok")
	at.OK = true
	at.Listen = l
	at.Ret = time.Now()
	cb := n.onListen
	n.mu.Unlock()
	if cb != nil {
		n.wg.Add(1)
		go func() { defer n.wg.Done(); cb(at.N, l) }()
	}
	return l, nil
}

// openResources lists harness-owned objects the library has not closed.
func (n *lifeNet) openResources() []string {
	n.mu.Lock()
	defer n.mu.Unlock()
	out := append([]string(nil), n.leaked...)
	for _, c := range n.conns {
		if !c.closed.Load() && !slices.Contains(n.leaked, fmt.Sprintf("conn#%d", c.id)) {
			out = append(out, fmt.Sprintf("conn#%d", c.id))
		}
	}
	for _, l := range n.listeners {
		if !l.closed.Load() {
			out = append(out, fmt.Sprintf("listener#%d", l.id))
		}
	}
	return out
}

// liveCtxs counts attempts whose generation ctx is not cancelled.
func (n *lifeNet) liveCtxs() int {
	n.mu.Lock()
	defer n.mu.Unlock()
	k := 0
	for _, a := range n.attempts {
		if a.Ctx != nil && a.Ctx.Err() == nil {
			k++
		}
	}
	return k
}

// ---- scripted peer ----

// lifeCut describes where the link dies: in which exchange, in which direction, after how many bytes
// of that exchange's frame.
type lifeCut struct {
	Exchange string `json:"exchange"` // "select" | "data" | "linktest" | "" (no cut)
	Dir      string `json:"dir"`      // "toPeer" (library → peer bytes) | "toLib" (peer → library bytes)
	Off      int    `json:"off"`      // bytes of the frame that still get through
}

// lifeBehaviour is what the peer does on one TCP connection.
type lifeBehaviour struct {
	Kind string  `json:"kind"` // serve | cut | stallSelect | rejectSelect | selectStatus1Hold | deselectHold | stallMidFrame | stallFrameSel | stallLinktest | stallRead | noSelect
	Cut  lifeCut `json:"cut"`
}

// lifePeer runs one peer connection. libActive says which side initiates Select (the library if
// active, the peer otherwise).
type lifePeer struct {
	conn      net.Conn
	libActive bool
	beh       lifeBehaviour
	selected  chan struct{} // closed when the select exchange completed on the peer side
	failedAt  chan time.Time
	dataSeen  atomic.Int64
	selOnce   sync.Once
	failOnce  sync.Once
	sys       uint32
	quit      chan struct{} // closed by the scenario to release a deliberately wedged peer
	quitOnce  sync.Once
	onFail    func() // called once, BEFORE the failure takes effect on the wire
	onExit    func(why string)
}

func (p *lifePeer) stop() { p.quitOnce.Do(func() { close(p.quit) }) }

func newLifePeer(conn net.Conn, libActive bool, beh lifeBehaviour) *lifePeer {
	return &lifePeer{conn: conn, libActive: libActive, beh: beh, selected: make(chan struct{}), failedAt: make(chan time.Time, 1), sys: 0x70000000, quit: make(chan struct{})}
}

func (p *lifePeer) markSelected() { p.selOnce.Do(func() { close(p.selected) }) }
func (p *lifePeer) markFailed() {
	p.failOnce.Do(func() {
		if p.onFail != nil {
			p.onFail()
		}
		p.failedAt <- time.Now()
	})
}

// readCut reads the next frame from the library. If cutOff >= 0 it lets exactly cutOff bytes through
// and then kills the link, returning cut=true.
func (p *lifePeer) readCut(cutOff int) (f lifeFrame, raw []byte, cut bool, err error) {
	if cutOff >= 0 {
		buf := make([]byte, cutOff)
		if cutOff > 0 {
			if _, err = io.ReadFull(p.conn, buf); err != nil {
				return f, nil, false, err
			}
		}
		p.markFailed()
		_ = p.conn.Close()
		return f, buf, true, nil
	}
	var lb [4]byte
	if _, err = io.ReadFull(p.conn, lb[:]); err != nil {
		return f, nil, false, err
	}
	n := binary.BigEndian.Uint32(lb[:])
	if n < 10 || n > 1<<20 {
		return f, nil, false, fmt.Errorf("peer: bad length %d", n)
	}
	raw = make([]byte, 4+n)
	copy(raw, lb[:])
	if _, err = io.ReadFull(p.conn, raw[4:]); err != nil {
		return f, nil, false, err
	}
	return lifeParseFrame(raw), raw, false, nil
}

// writeCut writes a frame to the library; if cutOff >= 0 only cutOff bytes are written and the link
// is killed.
func (p *lifePeer) writeCut(b []byte, cutOff int) (cut bool, err error) {
	if cutOff >= 0 {
		if cutOff > len(b) {
			cutOff = len(b)
		}
		if cutOff > 0 {
			if _, err = p.conn.Write(b[:cutOff]); err != nil {
				return false, err
			}
		}
		p.markFailed()
		_ = p.conn.Close()
		return true, nil
	}
	_, err = p.conn.Write(b)
	return false, err
}

func (p *lifePeer) cutFor(exchange, dir string) int {
	if p.beh.Kind == "cut" && p.beh.Cut.Exchange == exchange && p.beh.Cut.Dir == dir {
		return p.beh.Cut.Off
	}
	return -1
}

// stall parks until the library gives up and closes the link.
func (p *lifePeer) stall() {
	p.markFailed()
	_, _ = io.Copy(io.Discard, p.conn)
	_ = p.conn.Close()
}

// run is the peer's whole life on this connection.
func (p *lifePeer) run() {
	why := p.run1()
	_ = p.conn.Close()
	if p.onExit != nil {
		p.onExit(why)
	}
}

func (p *lifePeer) run1() (why string) {
	if !p.libActive {
		// the peer initiates Select
		switch p.beh.Kind {
		case "noSelect": // never selects: the library's T7 must fire
			p.stall()
			return "exit#1"
		case "stallMidFrame": // the first Cut.Off bytes of a frame (default 2), then silence with the socket open: T8
			_, _ = p.conn.Write(lifeStallPrefix(p.beh.Cut.Off, 2))
			p.stall()
			return "exit#2"
		}
		p.sys++
		var sb [4]byte
		binary.BigEndian.PutUint32(sb[:], p.sys)
		req := lifeFrame{Session: 0xFFFF, SType: lifeSTSelectReq, Sys: sb}.bytes()
		if cut, err := p.writeCut(req, p.cutFor("select", "toLib")); cut || err != nil {
			return "exit#3"
		}
		// The Select.rsp is awaited in the main loop below: the library commits Selected BEFORE it
		// queues Select.rsp (H2), so an application send issued the instant State()==Selected can
		// reach the wire ahead of the Select.rsp; a tolerant peer serves it.
	}
	for {
		// which frame do we expect next from the library? (scenario configs make this deterministic)
		cutOff := -1
		if !p.isSelected() {
			cutOff = p.cutFor("select", "toPeer")
		} else if p.isSelected() {
			if c := p.cutFor("data", "toPeer"); c >= 0 {
				cutOff = c
			} else if c := p.cutFor("linktest", "toPeer"); c >= 0 {
				cutOff = c
			}
		}
		if p.isSelected() && p.beh.Kind == "stallFrameSel" {
			// a partial frame inside an established Selected session, then silence with the socket open:
			// no T6/T7 is running and linktest is off, so only T8 can notice
			_, _ = p.conn.Write(lifeStallPrefix(p.beh.Cut.Off, 4))
			p.markFailed()
			p.stall()
			return "exit#6b"
		}
		if p.isSelected() && p.beh.Kind == "deselectHold" {
			// the peer ends the session with Deselect.req and then goes silent with the socket open: the connection is back
			// in NOT SELECTED and only the T7 dwell can rescue it (after seeded change C11g-1)
			req := lifeFrame{Session: 0xFFFF, SType: lifeSTDeselectReq, Sys: [4]byte{0x7d, 0, 0, 1}}.bytes()
			_, _ = p.conn.Write(req)
			p.markFailed()
			_, _ = io.Copy(io.Discard, p.conn)
			return "exit#6c"
		}
		if p.isSelected() && (p.beh.Kind == "stallRead" || p.beh.Kind == "stallReadShortCtx") {
			// stop reading: the library's next write blocks until its write timeout
			p.markFailed()
			<-p.quit
			return "exit#6"
		}
		f, _, cut, err := p.readCut(cutOff)
		if cut || err != nil {
			return fmt.Sprintf("main-read cut=%v err=%v", cut, err)
		}
		switch f.SType {
		case lifeSTSelectReq:
			switch p.beh.Kind {
			case "stallSelect":
				p.stall()
				return "exit#8"
			case "stallMidFrame":
				_, _ = p.conn.Write(lifeStallPrefix(p.beh.Cut.Off, 3))
				p.stall()
				return "exit#9"
			case "selectStatus1Hold":
				// "communication already active" although this side is not selected (a peer still holding a stale
				// session), and the TCP connection is kept open: the procedure ends without a commit, so only the T7
				// dwell can rescue the link (after seeded change C11c-1)
				p.markFailed()
				rsp := lifeFrame{Session: f.Session, B3: 1, SType: lifeSTSelectRsp, Sys: f.Sys}.bytes()
				_, _ = p.conn.Write(rsp)
				_, _ = io.Copy(io.Discard, p.conn)
				return "exit#10b"
			case "rejectSelect":
				p.markFailed()
				rsp := lifeFrame{Session: f.Session, B3: 2, SType: lifeSTSelectRsp, Sys: f.Sys}.bytes()
				_, _ = p.conn.Write(rsp)
				_, _ = io.Copy(io.Discard, p.conn)
				return "exit#10"
			}
			rsp := lifeFrame{Session: f.Session, B3: 0, SType: lifeSTSelectRsp, Sys: f.Sys}.bytes()
			if cut, err := p.writeCut(rsp, p.cutFor("select", "toLib")); cut || err != nil {
				return "exit#11"
			}
			p.markSelected()
		case lifeSTLinktestReq:
			if p.beh.Kind == "stallLinktest" {
				p.markFailed()
				continue // never answer
			}
			rsp := lifeFrame{Session: 0xFFFF, SType: lifeSTLinktestRsp, Sys: f.Sys}.bytes()
			if cut, err := p.writeCut(rsp, p.cutFor("linktest", "toLib")); cut || err != nil {
				return "exit#12"
			}
		case lifeSTData:
			p.dataSeen.Add(1)
			if f.B2&0x80 != 0 { // W-bit: reply with function+1, same system bytes, empty body
				rsp := lifeFrame{Session: f.Session, B2: f.B2 & 0x7f, B3: f.B3 + 1, SType: lifeSTData, Sys: f.Sys}.bytes()
				if cut, err := p.writeCut(rsp, p.cutFor("data", "toLib")); cut || err != nil {
					return "exit#13"
				}
			}
		case lifeSTSelectRsp:
			if p.libActive || f.B3 != 0 {
				return fmt.Sprintf("select answered with status=%d", f.B3)
			}
			p.markSelected()
		case lifeSTSeparateReq:
			return "exit#14"
		case lifeSTDeselectReq:
			rsp := lifeFrame{Session: f.Session, SType: lifeSTDeselectRsp, Sys: f.Sys}.bytes()
			_, _ = p.conn.Write(rsp)
		default:
			// responses / rejects: ignore
		}
	}
}

func (p *lifePeer) isSelected() bool {
	select {
	case <-p.selected:
		return true
	default:
		return false
	}
}

// ---- goroutine hygiene ----

// lifeLibGoroutines returns the stacks of goroutines that have a go-secs library frame
// (hsms / hsmsss / secs1 / internal packages). The caller must make sure no harness goroutine is
// inside a library call when it asks.
func lifeLibGoroutines() []string {
	buf := make([]byte, 1<<20)
	for {
		n := runtime.Stack(buf, true)
		if n < len(buf) {
			buf = buf[:n]
			break
		}
		buf = make([]byte, 2*len(buf))
	}
	var out []string
	for _, g := range strings.Split(string(buf), "\n\n") {
		if strings.Contains(g, "github.com/arloliu/go-secs/v2/") {
			out = append(out, g)
		}
	}
	return out
}

// lifeWaitNoLibGoroutines polls until no library goroutine is left or the deadline passes; it
// returns the survivors.
func lifeWaitNoLibGoroutines(d time.Duration) []string {
	deadline := time.Now().Add(d)
	for {
		gs := lifeLibGoroutines()
		if len(gs) == 0 || time.Now().After(deadline) {
			return gs
		}
		time.Sleep(5 * time.Millisecond)
	}
}

// lifeStallPrefix returns the first n bytes (def when n == 0) of a well-formed Linktest.req frame: what a
// peer has written when it stalls n bytes into a frame. n == 4 is the whole length prefix and nothing else.
func lifeStallPrefix(n, def int) []byte {
	if n <= 0 {
		n = def
	}
	f := lifeFrame{Session: 0xFFFF, SType: 5, Sys: [4]byte{0, 0, 0x7f, 1}}.bytes()
	if n > len(f)-1 {
		n = len(f) - 1
	}
	return f[:n]
}
