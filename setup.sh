#!/bin/sh
# Build the whole framework from files on disk (offline). Run once after a fresh restore.
set -e
cd "$(dirname "$0")"
export GOFLAGS=-mod=mod GOPROXY=off GOTOOLCHAIN=auto
unset GOSUMDB || true
mkdir -p bin evidence lean/GoSecs/Gen
(cd tools/go2lean && go build -o ../../bin/go2lean .)
rm -f lean/GoSecs/Gen/*
./bin/go2lean -repo "${VERIF_REPO:-/repo}" -out lean/GoSecs/Gen
(cd lean && lake build GoSecs driver)
cp "${VERIF_REPO:-/repo}/go.sum" harness/go.sum
(cd harness && go build -tags verif -o ../bin/harness .)
echo "setup: ok"
